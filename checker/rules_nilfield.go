package main

import (
	"fmt"
	"go/token"
	"go/types"
	"sort"
	"strings"

	"golang.org/x/tools/go/ssa"
)

// nilFieldContradictions is the contradiction rule for pointer fields (Engler et al.): a field that some function
// of the module compares with nil is, by the code's own belief, nil at times (created lazily, optional). Every other
// use of it that dereferences - a field of the pointee, a method of a foreign type called on it, a module function
// that dereferences the parameter it is passed as - must then come after a test or an assignment of a fresh object
// on every path through the function, or the code contradicts itself and the contradiction is a nil dereference in a
// connection's (or the server loop's) goroutine, which ends the process.
//
// The facts are computed per function as a forward must-analysis over the control flow graph, keyed by (base value,
// field): the true edge of `x.f != nil`, the false edge of `x.f == nil` and a store of a fresh object establish the
// fact, a store of anything else removes it, and a join keeps what all predecessors agree on.
//
// inPkg selects the functions whose dereferences are obligations; the fields are collected over the whole module.
func nilFieldContradictions(c *Ctx, r *Report, rule string, floor int, inPkg func(fn *ssa.Function) bool) {
	r.rule(rule, "contradiction rule for lazily created pointer fields: a field that the module compares with nil somewhere is dereferenced (field of the pointee, method of a foreign type, module function that dereferences its parameter) only where a nil test or the assignment of a fresh object reaches on every path (forward must-analysis per function)", floor)
	type fkey struct{ sn, f string }
	mayNil := map[fkey]string{}
	// a field counts as lazily created when a function that runs while connections are served (not the set-up
	// entry points, whose "if nil then default" establishes the field once and for all) both tests and assigns it
	setupMemo := map[*ssa.Function]int{} // 1 yes, 2 no, 3 in progress
	var setup func(fn *ssa.Function) bool
	setup = func(fn *ssa.Function) bool {
		switch setupMemo[fn] {
		case 1:
			return true
		case 2, 3:
			return false
		}
		setupMemo[fn] = 3
		res := false
		for f := fn; f != nil; f = f.Parent() {
			switch f.Name() {
			case "Provision", "provision", "UnmarshalCaddyfile", "UnmarshalJSON", "Validate", "init", "CaddyModule":
				res = true
			}
		}
		if !res && fn.Parent() == nil {
			// a helper all of whose callers are set-up code is set-up code ("create the optional object if needed")
			if sites, escapes := c.callSitesOf(fn); !escapes && len(sites) > 0 {
				res = true
				for _, cs := range sites {
					if !setup(cs.Parent()) {
						res = false
					}
				}
			}
		}
		if res {
			setupMemo[fn] = 1
		} else {
			setupMemo[fn] = 2
		}
		return res
	}
	for _, fn := range c.Funcs {
		if setup(fn) {
			continue
		}
		tested, stored := map[fkey]string{}, map[fkey]bool{}
		for _, b := range fn.Blocks {
			for _, in := range b.Instrs {
				switch x := in.(type) {
				case *ssa.BinOp:
					v, _, ok := nilCheck(x)
					if !ok {
						continue
					}
					ld, ok := v.(*ssa.UnOp)
					if !ok || ld.Op != token.MUL {
						continue
					}
					if _, isPtr := ld.Type().Underlying().(*types.Pointer); !isPtr {
						continue
					}
					if _, sn, f, ok := fieldAddr(ld.X); ok && strings.Contains(sn, ".") {
						if _, seen := tested[fkey{sn, f}]; !seen {
							tested[fkey{sn, f}] = c.ipos(in)
						}
					}
				case *ssa.Store:
					if _, sn, f, ok := fieldAddr(x.Addr); ok {
						// "created lazily" or "reset": the store puts nil there, or it is made under a test of that
						// very field (if x.f == nil { x.f = new... }). A field that is merely filled in from another
						// value (a table of optional things built without the absent ones) is not nil "at times"
						lazy := isNilConst(x.Val)
						for _, cd := range edgeConds(x.Block()) {
							if v, _, isNil := nilCheck(cd.V); isNil {
								if ld, isLd := v.(*ssa.UnOp); isLd && ld.Op == token.MUL {
									if _, sn2, f2, ok2 := fieldAddr(ld.X); ok2 && sn2 == sn && f2 == f {
										lazy = true
									}
								}
							}
						}
						if lazy {
							stored[fkey{sn, f}] = true
						}
					}
				}
			}
		}
		for k, pos := range tested {
			if _, seen := mayNil[k]; stored[k] && !seen {
				mayNil[k] = pos
			}
		}
	}
	// the exceptions confirmed by reading, one symbol each
	exceptions := map[string]string{
		"layer4.(*packetConn).Read|layer4.packetConn.deadlineTimer": "the router sets the read deadline before the first read of every routing (C05.R2 evaluates that on every path of the compiled handler), which creates the timer",
	}
	// a helper all of whose calls are made by the function an exception names runs under the same condition
	var exceptionOwner func(fn *ssa.Function) string
	ownerMemo := map[*ssa.Function]string{}
	exceptionOwner = func(fn *ssa.Function) string {
		if o, ok := ownerMemo[fn]; ok {
			return o
		}
		ownerMemo[fn] = fname(fn)
		for k := range exceptions {
			if strings.HasPrefix(k, fname(fn)+"|") {
				return fname(fn)
			}
		}
		if sites, escapes := c.callSitesOf(fn); !escapes && len(sites) > 0 && fn.Parent() == nil {
			owner := ""
			for _, cs := range sites {
				o := exceptionOwner(cs.Parent())
				if owner == "" {
					owner = o
				} else if owner != o {
					return fname(fn)
				}
			}
			ownerMemo[fn] = owner
		}
		return ownerMemo[fn]
	}
	n := 0
	for _, fn := range c.Funcs {
		if len(fn.Blocks) == 0 || !inPkg(fn) {
			continue
		}
		for _, d := range unguardedDerefs(c, fn, func(sn, f string) bool { _, ok := mayNil[fkey{sn, f}]; return ok }, 0) {
			n++
			construct := d.sn + "." + d.f + " " + d.how
			if why, ok := exceptions[exceptionOwner(fn)+"|"+d.sn+"."+d.f]; ok {
				r.ok(rule, fname(fn), construct, c.ipos(d.at), "confirmed by reading: "+why)
				continue
			}
			r.check(d.guarded, rule, fname(fn), construct, c.ipos(d.at),
				"a nil test or a fresh object reaches this use on every path (the field is tested at "+mayNil[fkey{d.sn, d.f}]+")",
				fmt.Sprintf("the field is nil at times (tested at %s) and dereferenced here without a test or an assignment on every path: a nil dereference in this goroutine ends the server process", mayNil[fkey{d.sn, d.f}]))
		}
	}
	var names []string
	for k := range mayNil {
		names = append(names, k.sn+"."+k.f)
	}
	sort.Strings(names)
	r.ok(rule, "module", "fields compared with nil", "-", fmt.Sprintf("%d fields: %s; %d dereferences judged", len(names), strings.Join(names, ", "), n))
}

type nilDeref struct {
	at      ssa.Instruction
	sn, f   string
	how     string
	guarded bool
}

// paramDerefs reports which pointer parameters of fn are dereferenced somewhere without a dominating nil test of
// the parameter (a one-level summary used for module helpers such as a timer-stopping function).
func paramDerefs(fn *ssa.Function) map[int]bool {
	out := map[int]bool{}
	if fn == nil || len(fn.Blocks) == 0 {
		return out
	}
	for i, p := range fn.Params {
		if _, isPtr := p.Type().Underlying().(*types.Pointer); !isPtr {
			continue
		}
		for _, ref := range *p.Referrers() {
			if how := derefUse(ref, p); how != "" && !knownNil(ref.Block(), p, false) {
				out[i] = true
			}
		}
	}
	return out
}

// derefUse says how instruction in dereferences v ("" if it does not).
func derefUse(in ssa.Instruction, v ssa.Value) string {
	switch x := in.(type) {
	case *ssa.FieldAddr:
		if x.X == v {
			return "field of the pointee"
		}
	case *ssa.IndexAddr:
		if x.X == v {
			return "element of the pointee"
		}
	case *ssa.UnOp:
		if x.Op == token.MUL && x.X == v {
			return "load of the pointee"
		}
	case *ssa.Store:
		if x.Addr == v {
			return "store to the pointee"
		}
	case ssa.CallInstruction:
		cm := x.Common()
		callee := cm.StaticCallee()
		if callee == nil || len(cm.Args) == 0 {
			return ""
		}
		inModule := callee.Pkg != nil && strings.HasPrefix(callee.Pkg.Pkg.Path(), modPath)
		if !inModule {
			if callee.Signature.Recv() != nil && cm.Args[0] == v {
				if _, isPtr := callee.Signature.Recv().Type().(*types.Pointer); isPtr {
					return "receiver of " + extName(callee)
				}
			}
			return ""
		}
		pd := paramDerefs(callee)
		for i, a := range cm.Args {
			if a == v && pd[i] {
				return "argument of " + fname(callee) + ", which dereferences it"
			}
		}
	}
	return ""
}

type establishedField struct {
	param int
	sn, f string
}

// establishedFields: the (parameter, field) pairs that are non-nil at every return of fn.
func establishedFields(c *Ctx, fn *ssa.Function, isMayNil func(sn, f string) bool, depth int) []establishedField {
	_, atReturn := nilFieldFlow(c, fn, isMayNil, depth)
	return atReturn
}

func unguardedDerefs(c *Ctx, fn *ssa.Function, isMayNil func(sn, f string) bool, depth int) []nilDeref {
	out, _ := nilFieldFlow(c, fn, isMayNil, depth)
	return out
}

type nfKey struct {
	base ssa.Value
	sn   string
	f    string
}

func nilFieldFlow(c *Ctx, fn *ssa.Function, isMayNil func(sn, f string) bool, depth int) ([]nilDeref, []establishedField) {
	out, est, _ := nilFieldFlowAt(c, fn, isMayNil, depth, nil)
	return out, est
}

// nilFieldFlowAt also returns the facts in force just before the instruction probe (nil: none asked for).
func nilFieldFlowAt(c *Ctx, fn *ssa.Function, isMayNil func(sn, f string) bool, depth int, probe ssa.Instruction) ([]nilDeref, []establishedField, map[nfKey]bool) {
	type key = nfKey
	keyOfAddr := func(a ssa.Value) (key, bool) {
		fa, ok := a.(*ssa.FieldAddr)
		if !ok {
			return key{}, false
		}
		base, sn, f, ok := fieldAddr(fa)
		if !ok || !isMayNil(sn, f) {
			return key{}, false
		}
		return key{base, sn, f}, true
	}
	keyOfLoad := func(v ssa.Value) (key, bool) {
		ld, ok := v.(*ssa.UnOp)
		if !ok || ld.Op != token.MUL {
			return key{}, false
		}
		return keyOfAddr(ld.X)
	}
	fresh := func(v ssa.Value) bool {
		switch x := v.(type) {
		case *ssa.Alloc:
			return true
		case *ssa.Call:
			callee := x.Common().StaticCallee()
			if callee == nil || (callee.Pkg != nil && strings.HasPrefix(callee.Pkg.Pkg.Path(), modPath)) {
				return false
			}
			_, isPtr := x.Type().Underlying().(*types.Pointer)
			return isPtr // a foreign constructor with a single pointer result (time.NewTimer, rate.NewLimiter)
		}
		return false
	}
	type set map[key]bool
	copySet := func(s set) set {
		o := set{}
		for k := range s {
			o[k] = true
		}
		return o
	}
	// transfer through a block; visit (if not nil) sees the state before each instruction
	transfer := func(b *ssa.BasicBlock, in set, visit func(ssa.Instruction, set)) set {
		st := copySet(in)
		for _, ins := range b.Instrs {
			if visit != nil {
				visit(ins, st)
			}
			if s, ok := ins.(*ssa.Store); ok {
				if k, ok := keyOfAddr(s.Addr); ok {
					if fresh(s.Val) {
						st[k] = true
					} else {
						delete(st, k)
					}
				}
			}
			// a helper of the module that leaves a field of its argument non-nil on every return ("arm the timer")
			if ci, ok := ins.(ssa.CallInstruction); ok && depth < 2 {
				if _, isGo := ins.(*ssa.Go); !isGo {
					if callee := ci.Common().StaticCallee(); callee != nil && callee != fn && len(callee.Blocks) > 0 && callee.Pkg != nil && strings.HasPrefix(callee.Pkg.Pkg.Path(), modPath) {
						for _, e := range establishedFields(c, callee, isMayNil, depth+1) {
							if e.param < len(ci.Common().Args) {
								st[key{ci.Common().Args[e.param], e.sn, e.f}] = true
							}
						}
					}
				}
			}
		}
		return st
	}
	edgeFact := func(p *ssa.BasicBlock, succIdx int) (key, bool) {
		ifi, ok := p.Instrs[len(p.Instrs)-1].(*ssa.If)
		if !ok {
			return key{}, false
		}
		x, neq, ok := nilCheck(ifi.Cond)
		if !ok {
			return key{}, false
		}
		k, ok := keyOfLoad(x)
		if !ok {
			return key{}, false
		}
		// true edge (0) of != nil, false edge (1) of == nil
		if (neq && succIdx == 0) || (!neq && succIdx == 1) {
			return k, true
		}
		return key{}, false
	}
	ins := map[*ssa.BasicBlock]set{}
	top := map[*ssa.BasicBlock]bool{} // not yet computed: the identity of the meet
	for _, b := range fn.Blocks {
		top[b] = true
	}
	ins[fn.Blocks[0]] = set{}
	// an unexported helper all of whose callers are known starts with what holds at every call for the fields of
	// its arguments ("release the pending packet", called only where there is one)
	if depth < 2 && fn.Parent() == nil && !token.IsExported(fn.Name()) {
		if sites, escapes := c.callSitesOf(fn); !escapes && len(sites) > 0 {
			var acc set
			firstSite := true
			for _, cs := range sites {
				cur := set{}
				if cs.Parent() != fn {
					_, _, at := nilFieldFlowAt(c, cs.Parent(), isMayNil, depth+1, cs.(ssa.Instruction))
					for k := range at {
						for i, a := range cs.Common().Args {
							if a == k.base && i < len(fn.Params) {
								cur[key{fn.Params[i], k.sn, k.f}] = true
							}
						}
					}
				}
				if firstSite {
					acc, firstSite = cur, false
					continue
				}
				for k := range acc {
					if !cur[k] {
						delete(acc, k)
					}
				}
			}
			if acc != nil {
				ins[fn.Blocks[0]] = acc
			}
		}
	}
	delete(top, fn.Blocks[0])
	if fn.Recover != nil {
		ins[fn.Recover] = set{}
		delete(top, fn.Recover)
	}
	for changed, iter := true, 0; changed && iter < 200; iter++ {
		changed = false
		for _, b := range fn.Blocks {
			if len(b.Preds) == 0 {
				continue
			}
			var acc set
			first := true
			for _, p := range b.Preds {
				if top[p] {
					continue
				}
				out := transfer(p, ins[p], nil)
				for si, s := range p.Succs {
					if s == b {
						if k, ok := edgeFact(p, si); ok {
							out[k] = true
						}
						break
					}
				}
				if first {
					acc, first = out, false
				} else {
					for k := range acc {
						if !out[k] {
							delete(acc, k)
						}
					}
				}
			}
			if first {
				continue
			}
			if top[b] || len(acc) != len(ins[b]) {
				ins[b] = acc
				delete(top, b)
				changed = true
			}
		}
	}
	var out []nilDeref
	var atProbe map[nfKey]bool
	for _, b := range fn.Blocks {
		if top[b] {
			continue // unreachable
		}
		transfer(b, ins[b], func(in ssa.Instruction, st set) {
			if probe != nil && in == probe {
				atProbe = map[nfKey]bool{}
				for k := range st {
					atProbe[k] = true
				}
				// facts established by dominating branch edges on the loaded value itself are in st already
			}
			var ops []*ssa.Value
			ops = in.Operands(ops)
			seen := map[ssa.Value]bool{}
			for _, op := range ops {
				if op == nil || *op == nil || seen[*op] {
					continue
				}
				seen[*op] = true
				k, ok := keyOfLoad(*op)
				if !ok {
					continue
				}
				how := derefUse(in, *op)
				if how == "" {
					continue
				}
				g := st[k] || knownNil(b, *op, false)
				out = append(out, nilDeref{at: in, sn: k.sn, f: k.f, how: how, guarded: g})
			}
		})
	}
	// what holds at every return
	var atRet set
	first := true
	for _, b := range fn.Blocks {
		if top[b] {
			continue
		}
		if _, isRet := b.Instrs[len(b.Instrs)-1].(*ssa.Return); !isRet {
			continue
		}
		end := transfer(b, ins[b], nil)
		if first {
			atRet, first = end, false
			continue
		}
		for k := range atRet {
			if !end[k] {
				delete(atRet, k)
			}
		}
	}
	var est []establishedField
	for k := range atRet {
		if p, ok := k.base.(*ssa.Parameter); ok {
			if i := paramIndex(fn, p); i >= 0 {
				est = append(est, establishedField{i, k.sn, k.f})
			}
		}
	}
	sort.Slice(est, func(i, j int) bool {
		if est[i].param != est[j].param {
			return est[i].param < est[j].param
		}
		return est[i].sn+est[i].f < est[j].sn+est[j].f
	})
	return out, est, atProbe
}
