package main

import (
	"fmt"
	"strings"
)

// c01TeeRead: behind a tee, the next handler and the branch read the same stream. The connection handed to the
// next handler (nextConn) is evaluated for every outcome of its underlying read - data, data together with EOF
// (what crypto/tls returns when close_notify is queued behind the last record), EOF alone, another error: whatever
// it returns to the next handler (n > 0) has also gone to the branch - through the io.TeeReader built over the
// connection (C01.R9) or by a Write of exactly p[:n] to the pipe - its results are the read's results, and at EOF
// the pipe is closed so that the branch sees the end of the stream.
func c01TeeRead(c *Ctx, r *Report, rule string) {
	r.rule(rule, "tee: the connection given to the next handler, evaluated over the outcomes of its underlying read {(5,nil) (3,EOF) (0,EOF) (0,error)}: every byte returned was also written to the branch's pipe (through the TeeReader or as p[:n]), the read's (n, err) is returned, the pipe is closed at EOF", 4)
	fnName := "modules/l4tee.(nextConn).Read"
	fn := c.Fn(fnName)
	if fn == nil {
		r.bad(rule, fnName, "exists", "-", "function not found")
		return
	}
	type outcome struct {
		n   int64
		err string // "", "EOF", "other"
	}
	for _, oc := range []outcome{{5, ""}, {3, "EOF"}, {0, "EOF"}, {0, "other"}} {
		name := fmt.Sprintf("underlying read returns (%d, %s)", oc.n, map[string]string{"": "nil", "EOF": "io.EOF", "other": "error"}[oc.err])
		errV := symNil()
		switch oc.err {
		case "EOF":
			errV = SV{K: "ref", Known: true, Desc: "global:io.EOF"}
		case "other":
			errV = SV{K: "ref", Known: true, Desc: "global:net.errOther"}
		}
		sc := &Scenario{Name: name, MaxVisit: 6,
			Params: map[string]SV{"recv": {K: "struct", Desc: "nc"}, "p0": symSlice("p", 10)},
			Heap: map[string]SV{"nc.Reader": symRef("tee(cx,pipe)", false), "nc.Conn": symRef("cx", false), "nc.pipe": symRef("pipe", false),
				"global:io.EOF": {K: "ref", Known: true, Desc: "global:io.EOF"}},
		}
		sc.Call = func(callee string, args []SV, ev *symEval, st *symState) (SV, bool) {
			switch {
			case strings.HasSuffix(callee, ".Read") && len(args) == 2 && (args[0].Desc == "tee(cx,pipe)" || args[0].Desc == "cx"):
				return symTuple(symInt(oc.n), errV), true
			case callee == "(*io.PipeWriter).Write" && len(args) == 2:
				n := SV{K: "int", Desc: "written"}
				if args[1].Len != nil {
					n = *args[1].Len
				}
				return symTuple(n, symNil()), true
			case callee == "(*io.PipeWriter).Close", callee == "(*io.PipeWriter).CloseWithError":
				return symNil(), true
			case callee == "errors.Is" && len(args) == 2:
				return symBool(args[0].Desc == args[1].Desc), true
			}
			return SV{}, false
		}
		paths, err := evalPaths(fn, sc)
		if err != nil || len(paths) == 0 {
			r.bad(rule, fnName, name, c.pos(fn.Pos()), fmt.Sprintf("undecided: %v", err))
			continue
		}
		var problems []string
		for _, p := range paths {
			if p.Outcome != "return" || len(p.Ret) != 2 {
				problems = append(problems, "undecided path: "+p.Outcome)
				continue
			}
			viaTee, reads, closed := false, 0, false
			var written []string
			for _, e := range p.Trace {
				if e.Kind != "call" {
					continue
				}
				switch {
				case strings.HasSuffix(e.What, ".Read") && len(e.Args) == 2 && (e.Args[0] == "tee(cx,pipe)" || e.Args[0] == "cx"):
					reads++
					if e.Args[0] == "tee(cx,pipe)" {
						viaTee = true
					}
				case e.What == "(*io.PipeWriter).Write" && len(e.Args) == 2:
					written = append(written, e.Args[1])
				case e.What == "(*io.PipeWriter).Close" || e.What == "(*io.PipeWriter).CloseWithError":
					closed = true
				}
			}
			if reads != 1 {
				problems = append(problems, fmt.Sprintf("%d underlying reads, expected one", reads))
				continue
			}
			if oc.n > 0 && !viaTee {
				want := fmt.Sprintf("p[:%d]", oc.n)
				okW := false
				for _, w := range written {
					if w == want || w == fmt.Sprintf("p[0:%d]", oc.n) {
						okW = true
					}
				}
				if !okW {
					problems = append(problems, fmt.Sprintf("%d bytes are returned to the next handler but %v is what goes to the branch's pipe (expected %s): the branch misses them", oc.n, written, want))
				}
			}
			if viaTee && len(written) > 0 {
				problems = append(problems, "the bytes go to the branch twice (TeeReader and an explicit Write)")
			}
			if !(p.Ret[0].K == "int" && p.Ret[0].Known && p.Ret[0].N == oc.n) {
				problems = append(problems, fmt.Sprintf("returns n=%s, the read gave %d", p.Ret[0].Desc, oc.n))
			}
			if p.Ret[1].Desc != errV.Desc {
				problems = append(problems, fmt.Sprintf("returns err=%s, the read gave %s", p.Ret[1].Desc, errV.Desc))
			}
			if (oc.err == "EOF") != closed {
				problems = append(problems, fmt.Sprintf("pipe closed=%v at %s: the branch must see the end of the stream exactly when the client's stream ends", closed, name))
			}
		}
		r.check(len(problems) == 0, rule, fnName, name, c.pos(fn.Pos()), fmt.Sprintf("%d path(s)", len(paths)), strings.Join(dedup(problems), "; "))
	}
}
