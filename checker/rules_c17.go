package main

import (
	"fmt"
	"go/token"
	"sort"
	"strings"

	"golang.org/x/tools/go/ssa"
)

func init() {
	register(&property{
		ID:          "C17",
		Explanation: "Static decision of the throttle's token discipline by path evaluation: (R1/R2) throttledConn.Read over every ordering of len(p) against the bursts of the limiters present (none/total/local/both): the batch is min(len(p), bursts); every present limiter is asked WaitN(ctx, batch) before the single underlying Read, which is given exactly p[:batch]; a failed wait reads nothing; (R4) the underlying read's (n, err) is returned unchanged; (R3) Handle installs a throttledConn around the previous cx.Conn carrying the handler's total limiter unconditionally and a fresh per-connection limiter iff a per-connection limit is configured, before calling next; with latency configured next is reached only after the timer fired, and cancellation returns without calling next. The Handle table also covers handlers without any limit: the latency wait must precede next in every configuration.",
		NotDecided:  "The numeric bound burst + rate x T (x/time/rate is trusted to honour WaitN), timing, bytes already prefetched into the matching buffer before the throttle handler runs (they bypass the limiter).",
		Run:         runC17,
	})
}

func runC17(c *Ctx, r *Report) {
	c17Read(c, r)
	c17Handle(c, r, "C17.R3")
	c17Limiters(c, r, "C17.R5")
	c09R4(c, r, "C17.R7") // ... and a datagram waits for a slow (throttled) reader: the server loop hands it to the association's queue with a send that is not abandoned when the queue is full
	c17TotalLimiterOwn(c, r, "C17.R8")
	c17ProxyReadsThroughWrappers(c, r, "C17.R10")
	c08AfterHandOff(c, r, "C17.R9") // "the stream stays intact" also behind the listener wrapper: the context a throttled connection waits on is not cancelled by the function that handed the connection on
	c09R7(c, r, "C17.R6")           // throttling never loses bytes: a datagram read in batch-sized pieces (the virtual UDP connection's Read) is delivered completely, also when its length is a multiple of the batch
}

func c17Read(c *Ctx, r *Report) { c17ReadAs(c, r, "C17.R1", "C17.R4") }

func c17ReadAs(c *Ctx, r *Report, r1, r4 string) {
	r.rule(r1, "throttledConn.Read: each present limiter gets WaitN(ctx, batch) before the one underlying Read(p[:batch]); batch = min(len(p), burst of every present limiter); a failed wait performs no read and returns (0, error)", 9)
	r.rule(r4, "the underlying read's results are returned unchanged", 9)
	fnName := "modules/l4throttle.(throttledConn).Read"
	fn := c.Fn(fnName)
	if fn == nil {
		r.bad(r1, fnName, "exists", "-", "function not found")
		return
	}
	type lim struct {
		present bool
		burst   int64
	}
	cases := []struct {
		t, l lim
		lenP int64
	}{
		{lim{false, 0}, lim{false, 0}, 10},
		{lim{true, 5}, lim{false, 0}, 10}, {lim{true, 50}, lim{false, 0}, 10},
		{lim{false, 0}, lim{true, 5}, 10}, {lim{false, 0}, lim{true, 50}, 10},
		{lim{true, 5}, lim{true, 7}, 10}, {lim{true, 7}, lim{true, 5}, 10}, {lim{true, 50}, lim{true, 5}, 10}, {lim{true, 50}, lim{true, 60}, 10},
		// batches at and around the sizes at which code that pays in pieces goes wrong (1 KiB, 2 KiB, 4 KiB)
		{lim{true, 1024}, lim{false, 0}, 4096}, {lim{true, 4096}, lim{true, 2048}, 4096}, {lim{false, 0}, lim{true, 4096}, 4096}, {lim{true, 8192}, lim{false, 0}, 1025},
	}
	for _, cs := range cases {
		lenP := cs.lenP
		name := fmt.Sprintf("len(p)=%d,total=%v,local=%v", lenP, cs.t, cs.l)
		// the state of the throttled connection is the one Handle builds for this configuration (whatever fields
		// it is kept in): the handler-wide limiter is "totalLimiter", the one made for the connection "localLimiter"
		state, installed, herr := c17InstalledState(c, cs.t.present, cs.l.present)
		if herr != "" {
			r.bad(r1, fnName, name, c.pos(fn.Pos()), "undecided: "+herr)
			continue
		}
		sc := &Scenario{Name: name, Params: map[string]SV{"recv": {K: "struct", Desc: installed}, "p0": symSlice("p", lenP)}, Heap: state}
		bursts := map[string]int64{"totalLimiter": cs.t.burst, "localLimiter": cs.l.burst}
		sc.Call = func(callee string, args []SV, ev *symEval, st *symState) (SV, bool) {
			switch {
			case strings.HasSuffix(callee, "rate.Limiter).Burst"):
				return symInt(bursts[args[0].Desc]), true
			case strings.HasPrefix(callee, "go.uber.org/zap"), strings.HasPrefix(callee, "(*go.uber.org/zap"), strings.Contains(callee, "RemoteAddr"), strings.Contains(callee, "Addr.String"):
				return symOpaque("log"), true
			case callee == "fmt.Errorf":
				return SV{K: "ref", Known: true, Desc: "waitErr"}, true
			}
			return SV{}, false
		}
		sc.Alts = func(callee string, args []SV, ev *symEval, st *symState) []CallAlt {
			if strings.HasSuffix(callee, "rate.Limiter).WaitN") {
				return []CallAlt{{Ret: symNil(), Note: "ok"}, {Ret: SV{K: "ref", Known: true, Desc: "ctxErr"}, Note: "fail"}}
			}
			return nil
		}
		paths, err := evalPaths(fn, sc)
		if err != nil || len(paths) == 0 {
			r.bad(r1, fnName, name, c.pos(fn.Pos()), fmt.Sprintf("undecided: %v", err))
			continue
		}
		batch := lenP
		if cs.t.present && cs.t.burst < batch {
			batch = cs.t.burst
		}
		if cs.l.present && cs.l.burst < batch {
			batch = cs.l.burst
		}
		var p1, p4 []string
		for _, p := range paths {
			tr := fmtTrace(p)
			var waits, reads []Event
			failed := false
			for _, e := range p.Trace {
				if e.Kind != "call" {
					continue
				}
				if strings.HasSuffix(e.What, ".WaitN") {
					if len(reads) > 0 {
						p1 = append(p1, "a limiter is waited on after the read")
					}
					waits = append(waits, e)
					if e.Note == "fail" {
						failed = true
					}
				}
				if e.What == "invoke net.Conn.Read" {
					reads = append(reads, e)
				}
				// anything else done to a limiter changes the token account: only giving back what a short read left
				// unused of the batch that was paid for (batch - n) keeps "bytes read <= tokens taken"
				if strings.Contains(e.What, "rate.Limiter).") && !strings.HasSuffix(e.What, ".WaitN") && !strings.HasSuffix(e.What, ".Burst") && !strings.HasSuffix(e.What, ".Limit") {
					okRefund := false
					if strings.HasSuffix(e.What, ".ReserveN") && len(e.Args) == 3 && len(reads) == 1 {
						nDesc := "invoke.Read#"
						amt := strings.NewReplacer(" ", "").Replace(e.Args[2])
						for _, pat := range []string{"-(%d-%s", "(0-(%d-%s", "(%s"} {
							_ = pat
						}
						if strings.HasPrefix(amt, fmt.Sprintf("-(%d-%s", batch, nDesc)) || strings.HasPrefix(amt, fmt.Sprintf("(0-(%d-%s", batch, nDesc)) || strings.HasPrefix(amt, fmt.Sprintf("(%s", nDesc)) && strings.HasSuffix(amt, fmt.Sprintf("-%d)", batch)) {
							okRefund = true
						}
					}
					if !okRefund {
						p1 = append(p1, fmt.Sprintf("%s(%s) changes the token account by something other than the unused part of the batch paid for (batch %d minus the bytes read): more bytes than tokens can be pulled from the client", shortCallee(e.What), strings.Join(e.Args[1:], ", "), batch))
					}
				}
			}
			// tokens may be taken in pieces: per limiter they add up to the batch
			paid := map[string]int64{}
			payOK := true
			for _, w := range waits {
				var amt int64
				if _, err := fmt.Sscan(w.Args[2], &amt); err != nil || amt < 0 {
					payOK = false
					p1 = append(p1, fmt.Sprintf("%s waits for %s tokens, which the evaluation cannot add up", w.Args[0], w.Args[2]))
				}
				paid[w.Args[0]] += amt
			}
			if payOK && !failed {
				for lname, amt := range paid {
					if amt != batch {
						p1 = append(p1, fmt.Sprintf("%s is asked for %d tokens in all, batch must be min(len(p), bursts) = %d: more bytes than tokens are pulled from the client", lname, amt, batch))
					}
				}
			}
			if failed {
				if len(reads) != 0 {
					p1 = append(p1, "bytes are read although waiting for tokens failed: "+tr)
				}
				if len(p.Ret) != 2 || !(p.Ret[0].Known && p.Ret[0].N == 0) || p.Ret[1].Known && p.Ret[1].Nil {
					p1 = append(p1, "a failed wait must return (0, error)")
				}
				continue
			}
			want := 0
			if cs.t.present {
				want++
			}
			if cs.l.present {
				want++
			}
			seen := map[string]bool{}
			for _, w := range waits {
				seen[w.Args[0]] = true
			}
			if len(seen) != want || (cs.t.present && !seen["totalLimiter"]) || (cs.l.present && !seen["localLimiter"]) {
				p1 = append(p1, fmt.Sprintf("not every configured limiter is asked for tokens before reading (waited on %v): %s", seen, tr))
			}
			wantArg := fmt.Sprintf("p[:%d]", batch)
			if len(reads) == 1 && reads[0].Args[1] == "p" && batch == lenP {
				// reading into all of p is the same when the batch covers it
			} else if len(reads) != 1 || reads[0].Args[1] != wantArg {
				got := "none"
				if len(reads) > 0 {
					got = reads[0].Args[1]
				}
				p1 = append(p1, fmt.Sprintf("the underlying read must get exactly the batch that was paid for (%s), gets %s: more bytes than tokens are pulled from the client", wantArg, got))
			}
			if len(p.Ret) != 2 || !strings.HasSuffix(p.Ret[0].Desc, ".0") || !strings.HasSuffix(p.Ret[1].Desc, ".1") || !strings.HasPrefix(p.Ret[0].Desc, "invoke.Read#") {
				p4 = append(p4, "the underlying read's (n, err) is not returned unchanged: "+p.retDesc())
			}
		}
		r.check(len(p1) == 0, r1, fnName, name, c.pos(fn.Pos()), fmt.Sprintf("%d paths, batch=%d", len(paths), batch), strings.Join(dedup(p1), "\n"))
		r.check(len(p4) == 0, r4, fnName, name, c.pos(fn.Pos()), "pass-through", strings.Join(dedup(p4), "\n"))
	}
}

// c17InstalledState evaluates Handler.Handle for a configuration with/without a handler-wide and a per-connection
// limit and returns the memory of the throttled connection it installs (keys are relative to the returned name).
func c17InstalledState(c *Ctx, total, local bool) (map[string]SV, string, string) {
	fn := c.Fn("modules/l4throttle.(*Handler).Handle")
	if fn == nil {
		return nil, "", "Handler.Handle not found"
	}
	burst := int64(0)
	if local {
		burst = 1
	}
	sc := &Scenario{Name: "state", Params: map[string]SV{"recv": symRef("h", false), "p0": symRef("cx", false), "p1": symRef("next", false)},
		Heap: map[string]SV{"h.ReadBytesPerSecond": symInt(0), "h.ReadBurstSize": symInt(burst), "h.Latency": symInt(0), "h.totalLimiter": symRef("totalLimiter", false), "cx.Conn": symRef("rawconn", false), "cx.Context": symRef("ctx", false)},
	}
	if !total {
		sc.Heap["h.totalLimiter"] = symNil()
	}
	sc.Call = func(callee string, args []SV, ev *symEval, st *symState) (SV, bool) {
		switch {
		case strings.HasSuffix(callee, "rate.NewLimiter"):
			return symRef("localLimiter", false), true
		case strings.HasSuffix(callee, "zap.Logger).Named"):
			return symRef("logger", false), true
		}
		return SV{}, false
	}
	paths, err := evalPaths(fn, sc)
	if err != nil {
		return nil, "", err.Error()
	}
	for _, p := range paths {
		if p.Outcome != "return" {
			continue
		}
		installed := ""
		for _, e := range p.Trace {
			if e.Kind == "store" && e.What == "cx.Conn" {
				installed = e.Args[0]
			}
		}
		if installed == "" {
			continue
		}
		out := map[string]SV{}
		for k, v := range p.Heap {
			if strings.HasPrefix(k, installed+".") || k == installed {
				out[k] = v
			}
		}
		return out, installed, ""
	}
	return nil, "", "Handle installs no throttled connection for this configuration"
}

// evalPathsRecvStruct evaluates a method with a struct value receiver whose fields are given in
// sc.Heap as "<name>.<field>": the receiver parameter is spilled to a local cell by go/ssa, so the
// heap keys are re-targeted to that cell once it exists (the cell's loads default to these values).
func evalPathsRecvStruct(fn *ssa.Function, sc *Scenario, name string) ([]Path, error) {
	// go/ssa spills the receiver: t0 = local T (recv); *t0 = recv ; &t0.field ...
	// Our evaluator names the cell "cell:<comment>#k"; field loads miss the heap and fall back to
	// defaultFor(...). We therefore pre-seed by rewriting lookups: wrap Call to intercept nothing, and
	// instead place values under every plausible cell name.
	for k := 0; k < 6; k++ {
		for key, v := range sc.Heap {
			if strings.HasPrefix(key, name+".") {
				for _, cm := range []string{fn.Params[0].Name(), name} {
					sc.Heap[fmt.Sprintf("cell:%s#%d.%s", cm, k, strings.TrimPrefix(key, name+"."))] = v
				}
			}
		}
	}
	return evalPaths(fn, sc)
}

func c17Handle(c *Ctx, r *Report, rule string) {
	r.rule(rule, "throttle Handle over (per-connection limit configured or not) x (latency 0 / >0, timer or cancellation): cx.Conn becomes a throttledConn whose Conn is the previous cx.Conn, whose totalLimiter is the handler's and whose localLimiter is a fresh limiter iff a per-connection limit is configured; next.Handle(cx) follows; with latency - also when no limit at all is configured - it is reached only through the timer, cancellation returns without next", 8)
	fnName := "modules/l4throttle.(*Handler).Handle"
	fn := c.Fn(fnName)
	if fn == nil {
		r.bad(rule, fnName, "exists", "-", "function not found")
		return
	}
	for _, combo := range [][2]bool{{false, true}, {true, true}, {false, false}, {true, false}} {
		local, total := combo[0], combo[1]
		for _, lat := range []int64{0, 1} { // the smallest latency there is
			name := fmt.Sprintf("localLimit=%v,latency=%d", local, lat)
			if !total {
				name += ",no-total-limit"
			}
			rate, burst := int64(0), int64(0)
			if local {
				burst = 1 // the smallest per-connection limit there is
			}
			sc := &Scenario{Name: name, Params: map[string]SV{"recv": symRef("h", false), "p0": symRef("cx", false), "p1": symRef("next", false)},
				Heap: map[string]SV{"h.ReadBytesPerSecond": symInt(rate), "h.ReadBurstSize": symInt(burst), "h.Latency": symInt(lat), "h.totalLimiter": symRef("h.totalLimiter", false), "cx.Conn": symRef("rawconn", false)},
				Inline: func(f *ssa.Function) bool { // deferred closures of Handle run when it returns; helpers of the package it calls are part of it
					return f.Parent() == fn || f.Pkg != nil && f.Pkg == fn.Pkg && f != fn && f.Parent() == nil && !token.IsExported(f.Name())
				},
			}
			sc.Call = func(callee string, args []SV, ev *symEval, st *symState) (SV, bool) {
				switch {
				case strings.HasSuffix(callee, "rate.NewLimiter"):
					return symRef("newLimiter", false), true
				case strings.HasSuffix(callee, "zap.Logger).Named"):
					return symRef("logger", false), true
				case callee == "time.NewTimer":
					return symRef("timer", false), true
				}
				return SV{}, false
			}
			wantTotal := "h.totalLimiter"
			if !total {
				sc.Heap["h.totalLimiter"] = symNil()
				wantTotal = "nil"
			}
			paths, err := evalPaths(fn, sc)
			if err != nil || len(paths) == 0 {
				r.bad(rule, fnName, name, c.pos(fn.Pos()), fmt.Sprintf("undecided: %v", err))
				continue
			}
			var problems []string
			for _, p := range paths {
				tr := fmtTrace(p)
				if p.Outcome == "panic" {
					continue
				}
				var installed string
				nextCalled, selected := false, -1
				installedBeforeNext := false
				for _, e := range p.Trace {
					if e.Kind == "store" && e.What == "cx.Conn" {
						if nextCalled && installed != "" && e.Args[0] != installed {
							// the handler chain continues after Handle returns (a later route, the wrapped listener):
							// the connection must stay throttled
							problems = append(problems, "after next.Handle the connection's Conn is set back to "+e.Args[0]+": whoever reads the connection after this handler returns (a later route, the wrapped listener's consumer) reads it unthrottled")
							continue
						}
						installed = e.Args[0]
					}
					if e.Kind == "select" {
						selected = 1
					}
					if e.Kind == "call" && e.What == "invoke layer4.Handler.Handle" {
						nextCalled = true
						installedBeforeNext = installed != ""
						if e.Args[1] != "cx" {
							problems = append(problems, "next gets "+e.Args[1]+" instead of the throttled connection")
						}
					}
				}
				_ = selected
				cancelled := false
				for _, f := range selectFired(p) {
					if !strings.Contains(f, "timer") { // the communication chosen is not the latency timer: the context's Done
						cancelled = true
					}
				}
				if installed == "" && (local || total) {
					problems = append(problems, "no throttled connection is installed: "+tr)
					continue
				}
				if installed != "" {
					// what the installed connection holds, wherever its fields keep it
					holds := map[string]int{}
					var held []string
					for k, v := range p.Heap {
						if strings.HasPrefix(k, installed+".") && v.Desc != "" && !(v.Known && v.Nil) {
							holds[v.Desc]++
							held = append(held, strings.TrimPrefix(k, installed+".")+"="+v.Desc)
						}
					}
					sort.Strings(held)
					if holds["rawconn"] != 1 {
						problems = append(problems, "the throttled connection does not wrap the previous cx.Conn (holds "+strings.Join(held, ", ")+"): the stream is cut or bypasses the limiter")
					}
					if wantTotal != "nil" && holds[wantTotal] != 1 {
						problems = append(problems, "the handler-wide limiter is not attached to this connection (holds "+strings.Join(held, ", ")+"): the total limit no longer holds summed over all connections")
					}
					if wantTotal == "nil" && holds["h.totalLimiter"] != 0 {
						problems = append(problems, "no total limit is configured but the connection gets a total limiter")
					}
					if local && holds["newLimiter"] != 1 {
						problems = append(problems, "a per-connection limit is configured but the connection gets no limiter of its own (holds "+strings.Join(held, ", ")+")")
					}
					if !local && holds["newLimiter"] != 0 {
						problems = append(problems, "no per-connection limit is configured but the connection gets a limiter of its own")
					}
					for d := range holds {
						if strings.Contains(d, "Limiter") && d != "newLimiter" && d != "h.totalLimiter" {
							problems = append(problems, "the connection gets the limiter "+d+", which is neither the handler-wide one nor one made for this connection")
						}
					}
				} else {
					installedBeforeNext = true // nothing to meter: passing the connection on unchanged is the same behaviour
				}
				switch {
				case lat == 0:
					if !nextCalled || !installedBeforeNext {
						problems = append(problems, "next handler not called after installing the throttle: "+tr)
					}
				case cancelled:
					if nextCalled {
						problems = append(problems, "next handler runs although the connection's context was cancelled during the latency wait")
					}
				default:
					hasRecv := false
					for _, e := range p.Trace {
						if e.Kind == "select" && strings.Contains(e.What, "timer.C") {
							hasRecv = true
						}
					}
					if !hasRecv {
						problems = append(problems, "latency is configured but next is reached without waiting for the timer: "+tr)
					}
					if !nextCalled && len(p.Ret) == 1 && p.Ret[0].Known && p.Ret[0].Nil {
						problems = append(problems, "path returns nil without calling next")
					}
				}
			}
			r.check(len(problems) == 0, rule, fnName, name, c.pos(fn.Pos()), fmt.Sprintf("%d paths", len(paths)), strings.Join(dedup(problems), "\n"))
		}
	}
}

// c17Limiters: the parameters of every token bucket are the configured ones. A limiter admits burst + rate*T bytes
// in any window T, so the bound the user configured holds only if rate and burst of the per-connection limiter are
// read_bytes_per_second/read_burst_size and those of the handler-wide one total_read_bytes_per_second/
// total_read_burst_size - nothing else (no rate.Inf, no constant, not the sibling's option), and if the default
// burst of each is derived from its own rate.
func c17Limiters(c *Ctx, r *Report, rule string) {
	r.rule(rule, "limiter parameters: every rate.NewLimiter in the throttle package takes as rate exactly one of the options read_bytes_per_second / total_read_bytes_per_second and as burst the burst option of the same scope; the result is used as the limiter of that scope (localLimiter / totalLimiter); every default written to a burst option derives from the rate option of the same scope", 4)
	pkg := "modules/l4throttle"
	pairs := map[string][2]string{
		"ReadBytesPerSecond":      {"ReadBurstSize", "localLimiter"},
		"TotalReadBytesPerSecond": {"TotalReadBurstSize", "totalLimiter"},
	}
	hname := pkg + ".Handler"
	n := 0
	for _, fn := range c.Funcs {
		if !strings.HasPrefix(fname(fn), pkg+".") {
			continue
		}
		for _, ci := range callsIn(fn) {
			if !strings.HasSuffix(calleeID(ci), "x/time/rate.NewLimiter") {
				continue
			}
			call0, ok := ci.(*ssa.Call)
			if !ok {
				continue
			}
			// a constructor helper shared by both scopes is judged per call site (what this caller passes and where
			// this caller puts the result)
			type inst struct {
				fn          *ssa.Function
				rate, burst ssa.Value
				result      *ssa.Call
			}
			insts := []inst{{fn, ci.Common().Args[0], ci.Common().Args[1], call0}}
			strip := func(v ssa.Value) ssa.Value {
				for {
					switch x := v.(type) {
					case *ssa.Convert:
						v = x.X
					case *ssa.ChangeType:
						v = x.X
					default:
						return v
					}
				}
			}
			if pr, isP := strip(ci.Common().Args[0]).(*ssa.Parameter); isP {
				if pb, isP2 := strip(ci.Common().Args[1]).(*ssa.Parameter); isP2 {
					sites, escapes := c.callSitesOf(fn)
					ir, ib := paramIndex(fn, pr), paramIndex(fn, pb)
					if !escapes && len(sites) > 0 && ir >= 0 && ib >= 0 {
						insts = nil
						for _, cs := range sites {
							if cv, isCall := cs.(*ssa.Call); isCall && ir < len(cs.Common().Args) && ib < len(cs.Common().Args) {
								insts = append(insts, inst{cs.Parent(), cs.Common().Args[ir], cs.Common().Args[ib], cv})
							}
						}
					}
				}
			}
			for _, in := range insts {
				fn, call := in.fn, in.result
				n++
				rl := leafSet(c.originsIP(fn, in.rate, 0), false)
				bl := leafSet(c.originsIP(fn, in.burst, 0), false)
				key := fmt.Sprintf("NewLimiter#%d", n)
				scope := ""
				for rateF := range pairs {
					if len(rl) == 1 && rl[0] == "field:"+hname+"."+rateF {
						scope = rateF
					}
				}
				if scope == "" {
					r.bad(rule, fname(fn), key, c.ipos(ci), "the limiter's rate is not exactly one of the configured rate options (it derives from "+strings.Join(rl, ", ")+"): the bytes admitted in a window are no longer bounded by burst + configured rate x T")
					continue
				}
				wantB := "field:" + hname + "." + pairs[scope][0]
				if !(len(bl) == 1 && bl[0] == wantB) {
					r.bad(rule, fname(fn), key, c.ipos(ci), "the burst of the limiter built on "+scope+" derives from "+strings.Join(bl, ", ")+", expected only "+wantB)
					continue
				}
				// where the limiter goes: the field of its scope
				// (the handler-wide one into the handler, shared by its connections; the per-connection one into an
				// object of the connection, never into the handler)
				used := c17LimiterUse(c, call, 0)
				inHandler := 0
				for _, u := range used {
					if strings.HasPrefix(u, hname+".") {
						inHandler++
					}
				}
				good := len(used) > 0 && ((scope == "TotalReadBytesPerSecond" && inHandler == len(used)) || (scope == "ReadBytesPerSecond" && inHandler == 0))
				want := pairs[scope][1]
				r.check(good, rule, fname(fn), key, c.ipos(ci), "rate "+scope+", burst "+pairs[scope][0]+", kept in "+strings.Join(used, ", "), "the limiter built from "+scope+" is kept in "+strings.Join(used, ", ")+"; the "+want+" belongs "+map[bool]string{true: "to the handler (shared by all its connections)", false: "to the connection it was made for, not to the handler"}[scope == "TotalReadBytesPerSecond"])
			}
		}
	}
	if n == 0 {
		r.bad(rule, pkg, "limiters are constructed", "-", "no rate.NewLimiter call found in the throttle package")
	}
	// defaults written to the burst options
	nd := 0
	for _, fn := range c.Funcs {
		if !strings.HasPrefix(fname(fn), pkg+".") || strings.Contains(fname(fn), "Unmarshal") {
			continue
		}
		for rateF, p := range pairs {
			for _, st := range storesToField(fn, hname, p[0]) {
				nd++
				var ls []string
				for _, l := range leafSet(c.originsIP(fn, st.Val, 0), true) {
					if l != "field:"+hname+"."+p[0] { // keeping the configured value is not a default
						ls = append(ls, l)
					}
				}
				good := len(ls) == 1 && ls[0] == "field:"+hname+"."+rateF
				r.check(good, rule, fname(fn), "default of "+p[0], c.ipos(st), "derived from "+rateF+" only", "the default written to "+p[0]+" derives from "+strings.Join(ls, ", ")+" instead of "+rateF+" alone: a connection (or the handler) is admitted a burst that its own configured rate does not justify")
			}
		}
	}
	if nd == 0 {
		r.ok(rule, pkg, "burst defaults", "-", "no default is written to a burst option")
	}
}

// c17LimiterUse: the fields a value ends up in (through phis, cells, struct literals and helper results).
func c17LimiterUse(c *Ctx, v ssa.Value, depth int) []string {
	seen := map[ssa.Value]bool{}
	found := map[string]bool{}
	var walk func(v ssa.Value, fn *ssa.Function, d int)
	walk = func(v ssa.Value, fn *ssa.Function, d int) {
		if v == nil || seen[v] || d > 8 || v.Referrers() == nil {
			return
		}
		seen[v] = true
		for _, ref := range *v.Referrers() {
			switch x := ref.(type) {
			case *ssa.Phi:
				walk(x, fn, d+1)
			case *ssa.Store:
				if x.Val != v {
					continue
				}
				if _, sn, f, ok := fieldAddr(x.Addr); ok {
					found[sn+"."+f] = true
				} else if al, ok := x.Addr.(*ssa.Alloc); ok {
					for _, r2 := range *al.Referrers() {
						if u, ok := r2.(*ssa.UnOp); ok {
							walk(u, fn, d+1)
						}
					}
				}
			case *ssa.Return:
				sites, _ := c.callSitesOf(fn)
				for _, cs := range sites {
					if cv, ok := cs.(*ssa.Call); ok {
						walk(cv, cs.Parent(), d+1)
					}
				}
			case *ssa.MakeInterface, *ssa.ChangeType:
				walk(x.(ssa.Value), fn, d+1)
			}
		}
	}
	if in, ok := v.(ssa.Instruction); ok {
		walk(v, in.Parent(), depth)
	}
	var out []string
	for f := range found {
		out = append(out, f)
	}
	sort.Strings(out)
	return out
}
