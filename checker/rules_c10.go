package main

import (
	"fmt"
	"go/types"
	"strings"

	"golang.org/x/tools/go/ssa"
)

func init() {
	register(&property{
		ID:          "C10",
		Explanation: "Static decision of the selection policies' contract by path evaluation of every Selector.Select (with leastConns/hostByHashing inlined) over pools of 0..3 upstreams and every availability vector, connection-count vector and random draw: (R1) every upstream returned was reported available by available() on that very path; no method is called on a nil pool slot; (R2) the deterministic-coverage policies (first, random, least_conn) return an upstream whenever some upstream is available, and all policies return nil when none is; (R3) first returns the earliest available one, least_conn one with the smallest count among the available; (R4) Upstream.available = healthy and not full, every peer consulted (truth table); (R5) round_robin takes each probe index from its own atomic increment executed in the same loop iteration; ip_hash hashes only the upstream's string and the client IP. The pool state (availability of every upstream and, for least_conn, 0..2 connections each) is fixed per evaluation - 1, 2..6, 4..36, 8..216 states for pools of 0..3 - whether or not the policy asks for it; round_robin is evaluated for every starting residue of its counter and must return an upstream whenever one is available.",
		NotDecided:  "'Returns one whenever one exists' for random_choose (its reservoir is indexed by pool position and can miss - noted, not claimed), for ip_hash when the hash is 0 and for round_robin beyond R5; distribution/fairness of the random policies; HRW stability when other upstreams leave.",
		Run:         runC10,
	})
}

func runC10(c *Ctx, r *Report) {
	c10Policies(c, r)
	c11R5(c, r, "C10.R4")
	c10R5(c, r, "C10.R5")
	c10Limits(c, r, "C10.R6")
	c11CountFailure(c, r, "C10.R9") // ... and every failed dial is remembered for the fail duration, whatever the peer's present count (a failure dropped because the peer is already down lets it come back too early)
	c11R1(c, r, "C10.R8")           // "below its failure limit" over histories: every counted failure is forgotten again after the fail duration, whatever happens to the handler in between (peers outlive configurations)
	c11PeerKey(c, r, "C10.R12")     // the state a backend is judged on ends with the configurations that name it: every operation on the peer table spells the key the same way (a peer stored under one spelling and released under another outlives its configuration, health flag and all)
	c10RobinPerInstance(c, r, "C10.R13")
	c11R6(c, r, "C10.R14") // "currently available" is judged on counters that only move by +1/-1 pairs: a reset to zero with forgetters still pending drives the failure count negative and hides later failures
	c11NoPeerlessUpstream(c, r, "C10.R15")
	defer c15TablesFor(c, r, "C10.R16", "l4proxy.(*Handler)") // "first picks the earliest": the pool is in the order the configuration gives - addresses on the directive line first, upstream blocks after them, each in the order written
	c11EveryPeerProbed(c, r, "C10.R17")                       // "healthy" is what the active checker found: every peer of every upstream is probed, whatever another peer's address or state
	c11Provision(c, r, "C10.R11")                             // "available" is judged on the backend's shared state: provisioning an upstream whose address is already in the pool takes the pooled peer, it does not make a second one
	c03Dial(c, r, "C10.R10", false)                           // an upstream leaves the rotation for its own failures only: a failed dial is remembered on the peer that was dialed (evaluation of dialPeers over all outcomes), not on its siblings, which other upstreams may share
	c11Handle(c, r, "C10.R7")                                 // "below its connection limit" is measured on counters the proxy keeps exact: +1 per peer once connected, -1 when done, nothing left behind by a failed dial
}

type polSpec struct {
	typ    string
	iff    bool // must return non-nil when one is available
	first  bool
	least  bool
	maxN   int
	choose int64
}

func c10Policies(c *Ctx, r *Report) { c10PoliciesAs(c, r, "C10.R1", "C10.R2", "C10.R3") }

func c10PoliciesAs(c *Ctx, r *Report, r1, r2, r3 string) {
	r.rule(r1, "only available upstreams are returned; no method call on a nil slot (per policy, pools of 0..3, all availability/count vectors and random draws)", 6)
	r.rule(r2, "an upstream is returned whenever one is available (first, random, random_choose, least_conn, ip_hash for every ordering of the hashes incl. zero, round_robin over every starting counter value); nil is returned when none is (all policies)", 6)
	r.rule(r3, "first returns the earliest available upstream; least_conn returns one with the fewest connections among the available", 2)
	specs := []polSpec{
		{typ: "FirstSelection", iff: true, first: true, maxN: 3},
		{typ: "RandomSelection", iff: true, maxN: 3},
		{typ: "LeastConnSelection", iff: true, least: true, maxN: 3},
		{typ: "RoundRobinSelection", iff: true, maxN: 3},
		{typ: "IPHashSelection", iff: true, maxN: 3},
		{typ: "RandomChoiceSelection", iff: true, maxN: 3, choose: 2},
		{typ: "RandomChoiceSelection", iff: true, maxN: 3, choose: 1},
	}
	availID, totalID := "modules/l4proxy.(*Upstream).available", "modules/l4proxy.(*Upstream).totalConns"
	for _, sp := range specs {
		fnName := "modules/l4proxy.(*" + sp.typ + ").Select"
		fn := c.Fn(fnName)
		if fn == nil {
			r.bad(r1, fnName, "exists", "-", "policy not found")
			continue
		}
		var p1, p2, p3 []string
		total := 0
		unknownSlot := ""
		for n := 0; n <= sp.maxN; n++ {
			// the pool state is fixed per evaluation: availability of every upstream and (for least_conn) its
			// number of connections - whether or not the policy asks for them
			nConn := 1
			if sp.least || sp.choose > 0 {
				nConn = 3 // (random_choose picks the least loaded of its sample: the helper's own cases need busy upstreams)
			}
			nStates := 1
			for i := 0; i < n; i++ {
				nStates *= 2 * nConn
			}
			for state := 0; state < nStates; state++ {
				availV := make([]bool, n)
				connV := make([]int64, n)
				x := state
				for i := 0; i < n; i++ {
					availV[i] = x%2 == 1
					x /= 2
					connV[i] = int64(x % nConn)
					x /= nConn
				}
				idxOf := func(desc string) int {
					for i := 0; i < n; i++ {
						if desc == fmt.Sprintf("pool[%d]", i) {
							return i
						}
					}
					return -1
				}
				sc := &Scenario{Name: fmt.Sprintf("n=%d avail=%v conns=%v", n, availV, connV), MaxVisit: 8, MaxPaths: 200000,
					Params: map[string]SV{"recv": symRef("r", false), "p0": symSlice("pool", int64(n)), "p1": symRef("conn", false)},
					Heap:   map[string]SV{"r.Choose": symInt(sp.choose)},
					Inline: func(f *ssa.Function) bool {
						nm := fname(f)
						return nm == "modules/l4proxy.leastConns" || nm == "modules/l4proxy.hostByHashing"
					},
				}
				for i := 0; i < n; i++ {
					sc.Heap[fmt.Sprintf("pool[%d]", i)] = symRef(fmt.Sprintf("pool[%d]", i), false)
				}
				sc.Call = func(callee string, args []SV, ev *symEval, st *symState) (SV, bool) {
					switch {
					case callee == availID:
						if k := idxOf(args[0].Desc); k >= 0 {
							return symBool(availV[k]), true
						}
						unknownSlot = args[0].Desc
						return symBool(false), true
					case callee == totalID:
						if k := idxOf(args[0].Desc); k >= 0 {
							return symInt(connV[k]), true
						}
						unknownSlot = args[0].Desc
						return symInt(0), true
					case strings.HasPrefix(callee, "invoke net."), callee == "net.SplitHostPort", callee == "modules/l4proxy.hash", strings.HasSuffix(callee, ".String"):
						if callee == "net.SplitHostPort" {
							return SV{K: "tuple", Desc: "split", Elems: []SV{{K: "str", Desc: "ip"}, {K: "str", Desc: "port"}, {K: "ref", Desc: "splitErr"}}}, true
						}
						if callee == "modules/l4proxy.hash" {
							return SV{K: "int", Desc: ev.fresh("hash")}, true
						}
						return symOpaque(shortCallee(callee)), true
					}
					return SV{}, false
				}
				sc.Alts = func(callee string, args []SV, ev *symEval, st *symState) []CallAlt {
					if callee == "sync/atomic.AddUint32" && n > 0 {
						// the shared round-robin counter can hold any value at the first increment (every residue modulo
						// the pool size is explored); later increments of the same selection continue from it
						// AddUint32 returns the old value plus the delta it is given
						delta := int64(1)
						if len(args) == 2 && args[1].K == "int" && args[1].Known {
							delta = args[1].N
						}
						if prev, ok := st.heap["robin.val"]; ok {
							v := prev.N + delta
							return []CallAlt{{Ret: symInt(v), Note: fmt.Sprintf("counter=%d", v), Effect: func(ev *symEval, st *symState) { st.heap["robin.val"] = symInt(v) }}}
						}
						var a []CallAlt
						for i := int64(0); i < int64(n); i++ {
							v := i + delta
							a = append(a, CallAlt{Ret: symInt(v), Note: fmt.Sprintf("counter=%d", v), Effect: func(ev *symEval, st *symState) { st.heap["robin.val"] = symInt(v) }})
						}
						return a
					}
					if callee == "math/rand.Intn" && len(args) == 1 && args[0].K == "int" && args[0].Known && args[0].N <= 4 {
						var a []CallAlt
						for i := int64(0); i < args[0].N; i++ {
							a = append(a, CallAlt{Ret: symInt(i), Note: fmt.Sprint(i)})
						}
						return a
					}
					return nil
				}
				unknownSlot = ""
				paths, err := evalPaths(fn, sc)
				if err != nil || len(paths) == 0 {
					p1 = append(p1, fmt.Sprintf("undecided for %s: %v", sc.Name, err))
					continue
				}
				if unknownSlot != "" {
					p1 = append(p1, "undecided: the policy asks about "+unknownSlot+", which the evaluation cannot identify with a pool slot")
				}
				total += len(paths)
				firstAvail := -1
				for i := 0; i < n; i++ {
					if availV[i] && firstAvail < 0 {
						firstAvail = i
					}
				}
				anyAvail := firstAvail >= 0
				for _, p := range paths {
					if p.Outcome != "return" || len(p.Ret) != 1 {
						p1 = append(p1, "path without normal return (bound reached?) for "+sc.Name+": "+fmtTrace(p))
						continue
					}
					for _, e := range p.Trace {
						if e.Kind == "nilderef" {
							p1 = append(p1, "method "+e.What+" is called on a nil upstream (empty slot): nil-pointer panic in the connection goroutine")
						}
					}
					ret := p.Ret[0]
					isNil := ret.Known && ret.Nil
					k := idxOf(ret.Desc)
					if !isNil {
						if k < 0 || !availV[k] {
							p1 = append(p1, "returns "+ret.Desc+" which is not available in pool state "+sc.Name)
						}
					}
					if isNil && anyAvail && sp.iff {
						p2 = append(p2, fmt.Sprintf("returns nil although pool[%d] is available (pool state %s)", firstAvail, sc.Name))
					}
					if !isNil && !anyAvail {
						p2 = append(p2, "returns an upstream although none is available ("+sc.Name+")")
					}
					if sp.first && !isNil && anyAvail && k != firstAvail {
						p3 = append(p3, fmt.Sprintf("returns %s although the earlier pool[%d] is available (%s)", ret.Desc, firstAvail, sc.Name))
					}
					if sp.least && !isNil && k >= 0 {
						for u := 0; u < n; u++ {
							if availV[u] && connV[u] < connV[k] {
								p3 = append(p3, fmt.Sprintf("returns %s with %d connections although available pool[%d] has %d (%s)", ret.Desc, connV[k], u, connV[u], sc.Name))
							}
						}
					}
				}
			}
		}
		pos := c.pos(fn.Pos())
		trim := func(x []string) string {
			x = dedup(x)
			if len(x) > 4 {
				x = append(x[:4], fmt.Sprintf("... %d more", len(x)-4))
			}
			return strings.Join(x, "\n")
		}
		sfx := ""
		if sp.choose > 0 && sp.choose != 2 {
			sfx = fmt.Sprintf(" (choose=%d)", sp.choose)
		}
		r.check(len(p1) == 0, r1, fnName, "only available"+sfx, pos, fmt.Sprintf("%d paths", total), trim(p1))
		r.check(len(p2) == 0, r2, fnName, "nil iff none"+sfx, pos, fmt.Sprintf("%d paths (must-return-when-available claimed: %v)", total, sp.iff), trim(p2))
		if sp.first || sp.least {
			r.check(len(p3) == 0, r3, fnName, "choice", pos, "the contractual choice is made", trim(p3))
		}
	}
}

// c10IncrementWrapper: g is a method of the policy (same receiver type as sel) every result of which is the result
// of an atomic.AddUint32 executed in that call.
func c10IncrementWrapper(g, sel *ssa.Function) bool {
	if g == nil || sel == nil || g.Pkg != sel.Pkg || len(g.Blocks) == 0 || g.Signature.Recv() == nil || sel.Signature.Recv() == nil ||
		!types.Identical(g.Signature.Recv().Type(), sel.Signature.Recv().Type()) {
		return false
	}
	rets := returnsOf(g)
	if len(rets) == 0 {
		return false
	}
	for _, ret := range rets {
		if len(ret.Results) != 1 {
			return false
		}
		ok := false
		for _, o := range origins(ret.Results[0], sliceOpts{}) {
			if o.Kind == "call" && o.Desc == "sync/atomic.AddUint32" {
				ok = true
			}
			if o.Kind == "field" {
				return false
			}
		}
		if !ok {
			return false
		}
	}
	return true
}

func c10R5(c *Ctx, r *Report, rule string) {
	r.rule(rule, "round_robin: every pool index derives from the result of an atomic.AddUint32 on the policy's counter executed in the same loop iteration (the counter advances once per probe); ip_hash: the hashed key derives only from the upstream's String() and the client address with the port split off", 2)
	if fn := c.Fn("modules/l4proxy.(*RoundRobinSelection).Select"); fn != nil {
		good, n := true, 0
		detail := ""
		for _, b := range fn.Blocks {
			for _, in := range b.Instrs {
				ia, ok := in.(*ssa.IndexAddr)
				if !ok {
					continue
				}
				n++
				var add *ssa.Call
				for _, o := range origins(ia.Index, sliceOpts{}) {
					if o.Kind == "call" && o.Desc == "sync/atomic.AddUint32" {
						add = o.V.(*ssa.Call)
					}
					if cl, isCall := o.V.(*ssa.Call); o.Kind == "call" && isCall && c10IncrementWrapper(cl.Call.StaticCallee(), fn) {
						add = cl // a method of the policy that returns the increment's result
					}
					if o.Kind == "field" {
						good, detail = false, "index reads the counter field plainly"
					}
				}
				if add == nil {
					good, detail = false, "index does not derive from the atomic increment's result"
				} else if inLoop(ia.Block()) && !(add.Block() == ia.Block() || (inLoop(add.Block()) && add.Block().Dominates(ia.Block()))) {
					good, detail = false, "the counter is advanced once per selection, not once per probe: after a skipped (unavailable) upstream the next one is handed out twice per cycle"
				}
			}
		}
		r.check(good && n > 0, rule, fname(fn), "index from per-probe increment", c.pos(fn.Pos()), "each probe uses its own increment", detail)
	}
	if fn := c.Fn("modules/l4proxy.hostByHashing"); fn != nil {
		good := false
		detail := "hash call not found"
		for _, ci := range callsIn(fn) {
			if calleeID(ci) == "modules/l4proxy.hash" {
				good = true
				for _, o := range origins(ci.Common().Args[0], sliceOpts{}) {
					switch {
					case o.Kind == "param", o.Kind == "call" && strings.HasSuffix(o.Desc, ".String"):
					default:
						good, detail = false, "hash key has origin "+o.Kind+":"+o.Desc
					}
				}
			}
		}
		r.check(good, rule, fname(fn), "hash inputs", c.pos(fn.Pos()), "key = upstream string + client key only", "ip_hash is not a deterministic function of upstream and client: "+detail)
	}
	c10HashKey(c, r, rule)
}

// c10HashKey: the client key of ip_hash, evaluated over the outcomes of splitting the remote address.
func c10HashKey(c *Ctx, r *Report, rule string) {
	fnName := "modules/l4proxy.(*IPHashSelection).Select"
	fn := c.Fn(fnName)
	if fn == nil {
		r.bad(rule, fnName, "exists", "-", "function not found")
		return
	}
	sc := &Scenario{Name: "hash key", ByType: map[string]SV{"modules/l4proxy.UpstreamPool": symSlice("pool", 2), "layer4.Connection": symRef("conn", false)}, NoDefaultInline: true}
	sc.Call = func(callee string, args []SV, ev *symEval, st *symState) (SV, bool) {
		switch {
		case callee == "modules/l4proxy.hostByHashing":
			key := ""
			for _, a := range args {
				if a.K == "str" {
					key = a.Desc
				}
			}
			return symRef("chosen("+key+")", false), true
		case strings.HasSuffix(callee, "Addr.String"):
			return SV{K: "str", Desc: "remote"}, true
		case strings.Contains(callee, "RemoteAddr"):
			return symRef("addr", false), true
		}
		return SV{}, false
	}
	sc.Alts = func(callee string, args []SV, ev *symEval, st *symState) []CallAlt {
		if callee == "net.SplitHostPort" {
			return []CallAlt{
				{Ret: symTuple(SV{K: "str", Desc: "host"}, SV{K: "str", Desc: "port"}, symNil()), Note: "split"},
				{Ret: symTuple(symStr(""), symStr(""), SV{K: "ref", Known: true, Desc: "splitErr"}), Note: "no port"},
			}
		}
		return nil
	}
	paths, err := evalPaths(fn, sc)
	if err != nil || len(paths) == 0 {
		r.bad(rule, fnName, "client key", c.pos(fn.Pos()), fmt.Sprintf("undecided: %v", err))
		return
	}
	var problems []string
	for _, p := range paths {
		outcome := ""
		for _, e := range p.Trace {
			if e.Kind == "call" && e.What == "net.SplitHostPort" {
				outcome = e.Note
				if len(e.Args) != 1 || e.Args[0] != "remote" {
					problems = append(problems, "splits "+strings.Join(e.Args, ","))
				}
			}
		}
		want := "chosen(host)"
		if outcome == "no port" {
			want = "chosen(remote)"
		}
		if len(p.Ret) != 1 || p.Ret[0].Desc != want {
			problems = append(problems, fmt.Sprintf("remote address %s: the policy answers %s, expected %s (the hash key must be the client IP without the port, so that every connection of a client lands on the same upstream)", outcome, p.retDesc(), want))
		}
	}
	r.check(len(problems) == 0, rule, fnName, "client key", c.pos(fn.Pos()), fmt.Sprintf("%d paths: the host part when the address has a port, the whole address otherwise", len(paths)), strings.Join(dedup(problems), "; "))
}

// c10Limits: what "below its connection limit" is measured against. Outside the unmarshallers the connection
// limit of an upstream is written only as the copy of the passive checks' unhealthy_connection_count (the two
// options mean the same thing); full() - which the availability table C10.R4 evaluates - reads that field.
func c10Limits(c *Ctx, r *Report, rule string) {
	r.rule(rule, "limit wiring: outside the unmarshallers every value written to Upstream.MaxConnections derives from PassiveHealthChecks.UnhealthyConnectionCount alone, and at least one such default exists in Upstream.provision", 1)
	n := 0
	for _, fn := range c.Funcs {
		if !strings.HasPrefix(fname(fn), "modules/l4proxy.") || strings.Contains(fname(fn), "Unmarshal") {
			continue
		}
		for _, st := range storesToField(fn, "modules/l4proxy.Upstream", "MaxConnections") {
			n++
			ls := leafSet(c.originsIP(fn, st.Val, 0), true)
			good := len(ls) == 1 && ls[0] == "field:modules/l4proxy.PassiveHealthChecks.UnhealthyConnectionCount"
			r.check(good, rule, fname(fn), fmt.Sprintf("MaxConnections default#%d", n), c.ipos(st), "copy of unhealthy_connection_count", "the connection limit of an upstream is set from "+strings.Join(ls, ", ")+" instead of unhealthy_connection_count: an upstream at its configured limit still counts as available (or one below it does not)")
		}
	}
	if n == 0 {
		r.bad(rule, "modules/l4proxy.(*Upstream).provision", "MaxConnections default", "-", "unhealthy_connection_count is no longer copied into the upstream's connection limit: the option has no effect on availability")
	}
}
