package main

import (
	"fmt"
	"strings"

	"golang.org/x/tools/go/ssa"
)

// c08NoLostUpdate (round 15): a shared atomic variable is never updated by "load, compute, store". Every access of
// such an update is atomic - the race detector and the who-may-access rule (C08.R1) stay silent - but two connections
// that overlap both read the old value and one update is lost (a connection count that drifts leaves an upstream
// "full" for ever or over-admitted). The rule: in the module's non-test code, the value of an atomic Store/Swap
// (sync/atomic.StoreT/SwapT and the Store/Swap methods of the atomic types) never derives from an atomic Load of
// the SAME variable (same base value, same field) in that function; read-modify-write goes through Add or
// CompareAndSwap. A store of a value loaded from another object (Wrap copying a counter into the new connection)
// or of a constant/parameter is what the repo does today and is accepted.
func c08NoLostUpdate(c *Ctx, r *Report, rule string) {
	r.rule(rule, "no lost update on shared atomics: the value of an atomic Store/Swap never derives from an atomic Load of the same variable in the same function (read-modify-write only through Add/CompareAndSwap)", 4)
	atomicOp := func(ci ssa.CallInstruction) (op string, addr ssa.Value, val ssa.Value) {
		cc := ci.Common()
		f := cc.StaticCallee()
		if f == nil || cc.IsInvoke() {
			return "", nil, nil
		}
		if f.Origin() != nil {
			f = f.Origin()
		}
		if f.Pkg == nil || f.Pkg.Pkg.Path() != "sync/atomic" || len(cc.Args) == 0 {
			return "", nil, nil
		}
		n := f.Name()
		for _, k := range []string{"Store", "Swap", "Load"} {
			if strings.HasPrefix(n, k) && !strings.HasPrefix(n, "CompareAndSwap") {
				if k == "Load" {
					return k, cc.Args[0], nil
				}
				if len(cc.Args) >= 2 {
					return k, cc.Args[0], cc.Args[1]
				}
			}
		}
		return "", nil, nil
	}
	var addrKey func(v ssa.Value, depth int) string
	addrKey = func(v ssa.Value, depth int) string {
		if depth > 6 {
			return fmt.Sprintf("%p", v)
		}
		switch x := v.(type) {
		case *ssa.FieldAddr:
			return addrKey(x.X, depth+1) + fmt.Sprintf(".f%d", x.Field)
		case *ssa.UnOp:
			return "*" + addrKey(x.X, depth+1)
		case *ssa.Global:
			return "global " + x.String()
		case *ssa.FreeVar:
			return "freevar " + x.Name()
		}
		return fmt.Sprintf("%p", v)
	}
	for _, fn := range c.Funcs {
		for _, ci := range callsIn(fn) {
			op, addr, val := atomicOp(ci)
			if op != "Store" && op != "Swap" {
				continue
			}
			key := addrKey(addr, 0)
			// backward slice of the stored value
			seen := map[ssa.Value]bool{}
			var from ssa.CallInstruction
			var walk func(v ssa.Value)
			walk = func(v ssa.Value) {
				if v == nil || seen[v] || from != nil {
					return
				}
				seen[v] = true
				switch x := v.(type) {
				case *ssa.Call:
					if o, a, _ := atomicOp(x); o == "Load" && addrKey(a, 0) == key {
						from = x
					}
				case *ssa.BinOp:
					walk(x.X)
					walk(x.Y)
				case *ssa.UnOp:
					walk(x.X)
				case *ssa.Convert:
					walk(x.X)
				case *ssa.ChangeType:
					walk(x.X)
				case *ssa.Phi:
					for _, e := range x.Edges {
						walk(e)
					}
				case *ssa.Extract:
					walk(x.Tuple)
				}
			}
			walk(val)
			n := 0
			for _, cj := range callsIn(fn) {
				if cj == ci {
					break
				}
				if o, _, _ := atomicOp(cj); o == "Store" || o == "Swap" {
					n++
				}
			}
			detail := ""
			if from != nil {
				detail = fmt.Sprintf("the stored value derives from the atomic load of the same variable at %s: two connections that overlap read the same old value and one of the two updates is lost (use Add or a CompareAndSwap loop)", c.ipos(from))
			}
			r.check(from == nil, rule, fname(fn), fmt.Sprintf("%s#%d", calleeID(ci), n+1), c.ipos(ci), "stored value independent of the variable's previous value", detail)
		}
	}
}
