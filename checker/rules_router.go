package main

// Bounded abstract interpretation of the handler compiled by RouteList.Compile.
//
// The closure's SSA is evaluated path by path (engine E4) for route lists of 0..3 routes with the
// callees replaced by summaries whose outcomes are explored exhaustively:
//   AnyMatch        -> matched / not matched / need more (ErrConsumedAllPrefetchedBytes) / other error
//   prefetch        -> ok / timeout (os.ErrDeadlineExceeded) / other error
//   route handlers  -> terminal / non-terminal handing on the same connection / non-terminal handing on a
//                      wrapped connection (runs the router's own last-handler closure) / error
//   SetReadDeadline -> nil (its error edges are checked structurally elsewhere)
// The number of prefetch rounds is bounded by the loop-unrolling bound. Every explored path yields
// the ordered list of these calls; the invariants of C02/C05/C13 are checked on each list.

import (
	"fmt"
	"sort"
	"strings"

	"golang.org/x/tools/go/ssa"
)

type rStep struct {
	Kind  string // arm, clear, prefetch, match, chain, fallback
	Route int
	Conn  string
	Note  string
}

type rPath struct {
	Steps   []rStep
	Outcome string // return / cutoff / panic
	Ret     string
	Raw     Path
}

func (p rPath) String() string {
	var s []string
	for _, st := range p.Steps {
		switch st.Kind {
		case "match":
			s = append(s, fmt.Sprintf("match(r%d)=%s", st.Route, st.Note))
		case "chain":
			s = append(s, fmt.Sprintf("handlers(r%d)=%s", st.Route, st.Note))
		case "prefetch":
			s = append(s, "prefetch="+st.Note)
		default:
			s = append(s, st.Kind)
		}
	}
	return strings.Join(s, " ") + " => " + p.Outcome + "(" + p.Ret + ")"
}

const (
	errConsumedDesc = "ErrConsumedAllPrefetchedBytes"
	errOtherDesc    = "errOther"
	errTimeoutDesc  = "os.ErrDeadlineExceeded"
)

func routeIndexOf(desc string) int {
	// "...routes[2].matcherSets"
	i := strings.LastIndex(desc, "[")
	j := strings.LastIndex(desc, "]")
	if i < 0 || j < i {
		return -1
	}
	n := -1
	fmt.Sscanf(desc[i+1:j], "%d", &n)
	return n
}

// exploreRouter enumerates the paths of the compiled handler for n routes.
func exploreRouter(c *Ctx, n int, maxRounds int) ([]rPath, error) {
	fn := c.Fn("layer4.(RouteList).Compile$1")
	if fn == nil {
		return nil, fmt.Errorf("compiled handler closure not found")
	}
	if c.routerMemo == nil {
		c.routerMemo = map[[2]int][]rPath{}
	}
	if ps, ok := c.routerMemo[[2]int{n, maxRounds}]; ok {
		return ps, nil
	}
	// the router's own last handler: the closure over a *Connection, created by the compiled handler (or a helper
	// evaluated in place), that is alive when a route's handler chain is invoked
	isLast := func(f *ssa.Function) bool {
		if f == nil || f.Parent() == nil || len(f.Params) != 1 || !isConnPtr(f.Params[0].Type()) || f.Pkg == nil || f.Pkg != fn.Pkg {
			return false
		}
		return f.Signature.Results().Len() == 1
	}
	nonNilErr := func(d string) SV { return SV{K: "ref", Known: true, Nil: false, Desc: d} }
	wrapped := 0
	sc := &Scenario{
		Name:     fmt.Sprintf("routes=%d", n),
		MaxVisit: 80,
		MaxPaths: 400000,
		Heap: map[string]SV{
			"freevar:routes": symSlice("routes", int64(n)),
			"freevar:next":   symRef("freevar:next", false),
		},
		Params: map[string]SV{"p0": symRef("cx0", false)},
	}
	for i := 0; i < n; i++ {
		sc.Heap[fmt.Sprintf("routes[%d].middleware", i)] = symSlice(fmt.Sprintf("routes[%d].middleware", i), 1)
	}
	sc.Call = func(callee string, args []SV, ev *symEval, st *symState) (SV, bool) {
		switch {
		case callee == "invoke net.Conn.SetReadDeadline":
			return symNil(), true
		case callee == "errors.Is":
			if len(args) == 2 {
				a, b := args[0].Desc, args[1].Desc
				return symBool(strings.Contains(b, a) || a == b), true
			}
		case strings.HasPrefix(callee, "invoke net.Conn.RemoteAddr"), strings.HasPrefix(callee, "invoke net.Addr.String"),
			strings.HasPrefix(callee, "go.uber.org/zap."), strings.HasPrefix(callee, "(*go.uber.org/zap.Logger)"), callee == "time.Now", strings.HasPrefix(callee, "(time.Time)"):
			return symOpaque(shortCallee(callee)), true
		}
		return SV{}, false
	}
	sc.Alts = func(callee string, args []SV, ev *symEval, st *symState) []CallAlt {
		switch {
		case callee == "layer4.(*MatcherSets).AnyMatch":
			tup := func(m bool, e SV) SV { return SV{K: "tuple", Desc: "anymatch", Elems: []SV{symBool(m), e}} }
			return []CallAlt{
				{Ret: tup(true, symNil()), Note: "T"},
				{Ret: tup(false, symNil()), Note: "F"},
				{Ret: tup(false, nonNilErr(errConsumedDesc)), Note: "NM"},
				{Ret: tup(false, nonNilErr(errOtherDesc)), Note: "ERR"},
			}
		case callee == "layer4.(*Connection).prefetch":
			rounds := 0
			for _, e := range st.trace {
				if e.Kind == "call" && e.What == callee {
					rounds++
				}
			}
			alts := []CallAlt{
				{Ret: nonNilErr(errTimeoutDesc), Note: "timeout"},
				{Ret: nonNilErr(errOtherDesc), Note: "error"},
			}
			if rounds < maxRounds {
				alts = append([]CallAlt{{Ret: symNil(), Note: "ok"}}, alts...)
			}
			return alts
		case callee == "invoke layer4.Handler.Handle":
			if len(args) > 0 && args[0].Desc == "freevar:next" {
				return nil // fallback: plain call event, symbolic result
			}
			adopt := func(conn SV) func(ev *symEval, st *symState) {
				return func(ev *symEval, st *symState) {
					var cl SV
					found := 0
					var keys []string
					for k := range st.heap {
						if strings.HasPrefix(k, "closure:") {
							keys = append(keys, k)
						}
					}
					sort.Strings(keys)
					for _, k := range keys {
						if v := st.heap[k]; isLast(v.Fn) {
							cl = v
							found++
						}
					}
					if found != 1 {
						st.trace = append(st.trace, Event{Kind: "model", What: fmt.Sprintf("no-last-handler (%d candidates)", found)})
						return
					}
					outs := ev.call(cl.Fn, []SV{conn}, cl.Bind, st, 1)
					if len(outs) != 1 {
						st.trace = append(st.trace, Event{Kind: "model", What: "last-handler-forked"})
					}
				}
			}
			same := args[1]
			wrapped++
			wr := symRef(fmt.Sprintf("wrapped%d(%s)", wrapped, args[1].Desc), false)
			return []CallAlt{
				{Ret: symNil(), Note: "terminal"},
				{Ret: symNil(), Note: "nonterminal", Effect: adopt(same)},
				{Ret: symNil(), Note: "nonterminal-wrapped:" + wr.Desc, Effect: adopt(wr)},
				{Ret: nonNilErr("handlerErr"), Note: "error"},
			}
		}
		return nil
	}
	paths, err := evalPaths(fn, sc)
	if err != nil {
		return nil, err
	}
	var out []rPath
	for _, p := range paths {
		rp := rPath{Outcome: p.Outcome, Ret: p.retDesc(), Raw: p}
		lastRoute := -1
		for _, e := range p.Trace {
			if e.Kind == "model" {
				rp.Steps = append(rp.Steps, rStep{Kind: "model-problem", Note: e.What})
			}
			if e.Kind != "call" {
				continue
			}
			switch {
			case e.What == "invoke net.Conn.SetReadDeadline":
				k := "arm"
				if strings.HasPrefix(e.Args[1], "zero") {
					k = "clear"
				}
				rp.Steps = append(rp.Steps, rStep{Kind: k, Conn: strings.TrimSuffix(e.Args[0], ".Conn"), Note: e.Args[1]})
			case e.What == "layer4.(*Connection).prefetch":
				rp.Steps = append(rp.Steps, rStep{Kind: "prefetch", Conn: e.Args[0], Note: e.Note})
			case e.What == "layer4.(*MatcherSets).AnyMatch":
				lastRoute = routeIndexOf(e.Args[0])
				rp.Steps = append(rp.Steps, rStep{Kind: "match", Route: lastRoute, Conn: e.Args[1], Note: e.Note})
			case e.What == "invoke layer4.Handler.Handle":
				if e.Args[0] == "freevar:next" {
					rp.Steps = append(rp.Steps, rStep{Kind: "fallback", Conn: e.Args[1]})
				} else {
					rp.Steps = append(rp.Steps, rStep{Kind: "chain", Route: lastRoute, Conn: e.Args[1], Note: e.Note})
				}
			}
		}
		out = append(out, rp)
	}
	c.routerMemo[[2]int{n, maxRounds}] = out
	return out, nil
}

// routerInvariants checks one explored path; which selects the invariant family ("routing", "deadline").
func routerInvariants(p rPath, n int, which string) []string {
	var bad []string
	add := func(f string, a ...interface{}) { bad = append(bad, fmt.Sprintf(f, a...)) }
	armed := false
	lastHandled := -1
	epoch := 0
	resEpoch := map[int]int{}
	res := map[int]string{}
	cur := "cx0"
	done := false // a terminal event happened: nothing may follow
	prevKind, prevRoute, prevNote := "", -1, ""
	// after a successful prefetch the routes that were waiting for it are asked again: at least the first of
	// them before the router reads more or gives the connection to the fallback
	var waiting map[int]bool
	reasked := false
	checkReasked := func(i int, what string) {
		if which == "routing" && len(waiting) > 0 && !reasked {
			add("%s (step %d) although new bytes arrived and none of the routes waiting for them was asked again: the router reads on (or falls through) without ever deciding them", what, i)
		}
	}
	for i, s := range p.Steps {
		if s.Kind == "model-problem" {
			add("model: %s", s.Note)
			continue
		}
		if done {
			if which == "routing" {
				add("step %d (%s) happens after the connection was finished (terminal handler, fallback or failed matching)", i, s.Kind)
			}
			continue
		}
		connOK := func() {
			if which == "routing" && s.Conn != "" && s.Conn != cur {
				add("step %d (%s) uses connection %s but the connection handed on by the last non-terminal route is %s", i, s.Kind, s.Conn, cur)
			}
		}
		switch s.Kind {
		case "arm":
			armed = true
			connOK()
		case "clear":
			armed = false
			connOK()
		case "prefetch":
			connOK()
			checkReasked(i, "prefetch")
			waiting, reasked = nil, false
			if s.Note == "ok" {
				waiting = map[int]bool{}
				for j := lastHandled + 1; j < n; j++ {
					if resEpoch[j] == epoch && res[j] == "NM" {
						waiting[j] = true
					}
				}
			}
			if which == "deadline" && !armed {
				add("prefetch (step %d) runs without the matching deadline armed: a silent or trickling client holds the connection forever", i)
			}
			if which == "routing" && n > 0 {
				// progress: waiting for more bytes is justified only by a route that can still match - one after the
				// last route that ran whose latest verdict on the stream as it is now is "need more" (or that has
				// not been asked on this stream yet)
				pending := false
				for j := lastHandled + 1; j < n; j++ {
					if resEpoch[j] != epoch || res[j] == "" || res[j] == "NM" {
						pending = true
					}
				}
				if !pending {
					add("prefetch (step %d) although every route after route %d has decided on the current stream: the connection waits for bytes nobody needs - the fallback is delayed until the client sends more, or never runs (timeout)", i, lastHandled)
				}
			}
			if s.Note != "ok" {
				done = true
			}
		case "match":
			connOK()
			if waiting[s.Route] {
				reasked = true
			}
			if which == "routing" {
				if s.Route <= lastHandled {
					add("route %d is matched again although route %d already ran (repetition / out of order)", s.Route, lastHandled)
				}
			}
			res[s.Route], resEpoch[s.Route] = s.Note, epoch
			if s.Note == "ERR" {
				done = true
			}
		case "chain":
			connOK()
			if which == "deadline" && armed {
				add("handlers of route %d run with the matching deadline still armed", s.Route)
			}
			if which == "routing" {
				if !(prevKind == "match" && prevRoute == s.Route && prevNote == "T") {
					add("handlers of route %d run without an immediately preceding successful match of that route", s.Route)
				}
				if res[s.Route] != "T" || resEpoch[s.Route] != epoch {
					add("handlers of route %d run although its matchers did not match the current stream (last verdict %q)", s.Route, res[s.Route])
				}
				if s.Route <= lastHandled {
					add("route %d handled after route %d (order/repetition)", s.Route, lastHandled)
				}
				for j := lastHandled + 1; j < s.Route; j++ {
					if res[j] == "T" && resEpoch[j] == epoch {
						add("route %d runs although the earlier route %d was decided as matching and did not run", s.Route, j)
					}
				}
			}
			lastHandled = s.Route
			switch {
			case s.Note == "terminal", s.Note == "error":
				done = true
			case strings.HasPrefix(s.Note, "nonterminal-wrapped:"):
				cur = strings.TrimPrefix(s.Note, "nonterminal-wrapped:")
				epoch++
			default:
				epoch++
			}
		case "fallback":
			connOK()
			checkReasked(i, "fallback")
			if which == "deadline" && armed {
				add("the fallback handler runs with the matching deadline still armed")
			}
			if which == "routing" {
				for j := lastHandled + 1; j < n; j++ {
					if res[j] != "F" || resEpoch[j] != epoch {
						add("fallback runs although route %d is not decided as not matching on the current stream (verdict %q from %d non-terminal route(s) ago)", j, res[j], epoch-resEpoch[j])
					}
				}
			}
			done = true
		}
		if s.Kind != "arm" && s.Kind != "clear" {
			prevKind, prevRoute, prevNote = s.Kind, s.Route, s.Note
		}
	}
	if which == "routing" && p.Outcome == "return" {
		// how must the path end?
		last := rStep{}
		for _, s := range p.Steps {
			if s.Kind != "arm" && s.Kind != "clear" {
				last = s
			}
		}
		switch {
		case last.Kind == "fallback":
			if !strings.HasPrefix(p.Ret, "invoke.Handle#") {
				add("the fallback's result is not returned (%s)", p.Ret)
			}
		case last.Kind == "chain" && last.Note == "terminal":
			if p.Ret != "nil" {
				add("after a terminal route the handler must return nil, returns %s", p.Ret)
			}
		case last.Kind == "chain" && last.Note == "error":
			if p.Ret != "handlerErr" {
				add("a handler error must be returned, returns %s", p.Ret)
			}
		case last.Kind == "prefetch" && last.Note != "ok", last.Kind == "match" && last.Note == "ERR":
			if p.Ret != "nil" {
				add("failed matching must end with nil (already logged), returns %s", p.Ret)
			}
		default:
			add("the compiled handler returns (%s) without terminal route, fallback or failed matching; last step %s", p.Ret, last.Kind)
		}
	}
	return bad
}

// c02Chain: the handler chain of a matched route is composed of every handler of the route, in order. The compiled
// handler is evaluated for one matching route with k = 1..3 handlers; each middleware is an unknown function whose
// application is recorded: the chain that is finally invoked must be m[0](m[1](...m[k-1](last)...)).
func c02Chain(c *Ctx, r *Report, rule string) {
	r.rule(rule, "chain composition (evaluation of the compiled route handler, one matching route with 1..3 handlers): the handler invoked for the route is middleware[0](middleware[1](…(middleware[k-1](router's last handler)))): every handler of the route is part of the chain, outermost first", 3)
	fn := c.Fn("layer4.(RouteList).Compile$1")
	name := "layer4.(RouteList).Compile$1"
	if fn == nil {
		r.bad(rule, name, "exists", "-", "compiled handler closure not found")
		return
	}
	for k := 1; k <= 3; k++ {
		key := fmt.Sprintf("handlers=%d", k)
		sc := &Scenario{Name: key, MaxVisit: 12, MaxPaths: 2000,
			Heap: map[string]SV{
				"freevar:routes":       symSlice("routes", 1),
				"freevar:next":         symRef("freevar:next", false),
				"routes[0].middleware": symSlice("routes[0].middleware", int64(k)),
			},
			Params: map[string]SV{"p0": symRef("cx0", false)},
		}
		sc.Call = func(callee string, args []SV, ev *symEval, st *symState) (SV, bool) {
			switch {
			case callee == "invoke net.Conn.SetReadDeadline":
				return symNil(), true
			case callee == "dynamic" && len(args) == 1:
				return symRef("app("+args[0].Desc+")", false), true
			case strings.HasPrefix(callee, "invoke net.Conn.RemoteAddr"), strings.HasPrefix(callee, "invoke net.Addr.String"),
				strings.HasPrefix(callee, "go.uber.org/zap."), strings.HasPrefix(callee, "(*go.uber.org/zap.Logger)"), callee == "time.Now", strings.HasPrefix(callee, "(time.Time)"):
				return symOpaque(shortCallee(callee)), true
			}
			return SV{}, false
		}
		sc.Alts = func(callee string, args []SV, ev *symEval, st *symState) []CallAlt {
			switch {
			case callee == "layer4.(*MatcherSets).AnyMatch":
				return []CallAlt{{Ret: SV{K: "tuple", Desc: "anymatch", Elems: []SV{symBool(true), symNil()}}, Note: "T"}}
			case callee == "invoke layer4.Handler.Handle":
				return []CallAlt{{Ret: symNil(), Note: "terminal"}}
			}
			return nil
		}
		paths, err := evalPaths(fn, sc)
		if err != nil || len(paths) == 0 {
			r.bad(rule, name, key, "-", fmt.Sprintf("undecided: %v", err))
			continue
		}
		var problems []string
		for _, p := range paths {
			if p.Outcome != "return" {
				problems = append(problems, "undecided path: "+p.Outcome)
				continue
			}
			var idxs []int
			var argsSeen []string
			recv := ""
			for _, e := range p.Trace {
				if e.Kind != "call" {
					continue
				}
				if strings.HasPrefix(e.What, "dynamic ") && strings.Contains(e.What, "middleware[") && len(e.Args) == 1 {
					idxs = append(idxs, routeIndexOf(e.What))
					argsSeen = append(argsSeen, e.Args[0])
				}
				if e.What == "invoke layer4.Handler.Handle" && len(e.Args) > 0 && e.Args[0] != "freevar:next" {
					recv = e.Args[0]
				}
			}
			good := len(idxs) == k && recv != ""
			for j := 0; good && j < k; j++ {
				if idxs[j] != k-1-j {
					good = false
				}
				if j > 0 && argsSeen[j] != "app("+argsSeen[j-1]+")" {
					good = false
				}
			}
			if good && recv != "app("+argsSeen[k-1]+")" {
				good = false
			}
			if !good {
				problems = append(problems, fmt.Sprintf("the chain invoked for a route with %d handlers applies the handlers %v (innermost first) and runs %s: a handler of the route is left out or applied out of order (e.g. a tls handler skipped: the next handler reads ciphertext)", k, idxs, recv))
			}
		}
		r.check(len(problems) == 0, rule, name, key, "-", fmt.Sprintf("%d path(s)", len(paths)), strings.Join(dedup(problems), "; "))
	}
}

// c02HandlersCompile: the other place where a handler chain is built (Handlers.Compile: the tee branch). The
// function is evaluated for lists of 1..3 handlers with wrapHandler evaluated in place; the value it returns is a
// nest of closures whose bindings are read off: the outermost wraps the first configured handler, each one's next is
// the chain of the following handlers, the innermost next is the no-op end.
func c02HandlersCompile(c *Ctx, r *Report, rule string) {
	r.rule(rule, "chain composition of Handlers.Compile (evaluation for lists of 1..3 handlers, wrapHandler in place): the returned handler is handlers[0] wrapped around handlers[1] ... around the no-op end - a branch's handlers run in the configured order, each on what the one before it hands on", 3)
	fnName := "layer4.(Handlers).Compile"
	fn := c.Fn(fnName)
	if fn == nil {
		r.bad(rule, fnName, "exists", "-", "function not found")
		return
	}
	for k := 1; k <= 3; k++ {
		key := fmt.Sprintf("handlers=%d", k)
		sc := &Scenario{Name: key, MaxVisit: 12, MaxPaths: 200,
			Params: map[string]SV{"recv": symSlice("hs", int64(k))},
			Heap:   map[string]SV{},
			Inline: func(f *ssa.Function) bool {
				return f.Pkg != nil && f.Pkg == fn.Pkg && (f.Name() == "wrapHandler" || (f.Parent() != nil && f.Parent().Name() == "wrapHandler"))
			},
		}
		for i := 0; i < k; i++ {
			sc.Heap[fmt.Sprintf("hs[%d]", i)] = symRef(fmt.Sprintf("handler%d", i), false)
		}
		paths, err := evalPaths(fn, sc)
		if err != nil || len(paths) != 1 || paths[0].Outcome != "return" || len(paths[0].Ret) != 1 {
			r.bad(rule, fnName, key, c.pos(fn.Pos()), fmt.Sprintf("undecided: %d paths, %v", len(paths), err))
			continue
		}
		// read the nest: a closure bound to (handler, next)
		var order []string
		v := paths[0].Ret[0]
		end := ""
		for depth := 0; depth < 8; depth++ {
			if v.Fn == nil || len(v.Bind) < 2 {
				end = v.Desc
				break
			}
			h, next := v.Bind[0], v.Bind[1]
			// captured variables are cells: what they hold at the end
			for i := 0; i < 3; i++ {
				if hv, ok := paths[0].Heap[h.Desc]; ok && strings.HasPrefix(h.Desc, "cell:") {
					h = hv
				}
				if nv, ok := paths[0].Heap[next.Desc]; ok && strings.HasPrefix(next.Desc, "cell:") {
					next = nv
				}
			}
			if strings.HasPrefix(next.Desc, "handler") && !strings.HasPrefix(h.Desc, "handler") {
				h, next = next, h
			}
			order = append(order, h.Desc)
			v = next
		}
		var want []string
		for i := 0; i < k; i++ {
			want = append(want, fmt.Sprintf("handler%d", i))
		}
		good := strings.Join(order, ",") == strings.Join(want, ",") && !strings.HasPrefix(end, "handler") && end != ""
		r.check(good, rule, fnName, key, c.pos(fn.Pos()), "outermost first: "+strings.Join(order, " > ")+" > "+end, fmt.Sprintf("the chain is %s > %s, the configured order is %s: a later handler of the branch runs before an earlier one (it sees the stream before the earlier one has stripped, decrypted or throttled it)", strings.Join(order, " > "), end, strings.Join(want, " > ")))
	}
}
