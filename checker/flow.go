package main

import (
	"go/token"
	"sort"
	"strings"

	"golang.org/x/tools/go/ssa"
)

// originsIP: the leaves of v's backward slice, with parameters of unexported functions all of whose callers are
// known replaced by what the callers pass, and results of module helpers replaced by what they return (bounded
// depth). Leaves that cannot be resolved stay as they are ("param", "call").
func (c *Ctx) originsIP(fn *ssa.Function, v ssa.Value, depth int) []Origin {
	var out []Origin
	for _, o := range origins(v, sliceOpts{}) {
		switch o.Kind {
		case "param":
			par, _ := o.V.(*ssa.Parameter)
			sites, escapes := c.callSitesOf(fn)
			if par != nil && fn.Parent() == nil && !(token.IsExported(fn.Name())) && !escapes && len(sites) > 0 && depth < 3 {
				idx := paramIndex(fn, par)
				resolved := idx >= 0
				var sub []Origin
				for _, cs := range sites {
					if idx < 0 || idx >= len(cs.Common().Args) {
						resolved = false
						break
					}
					sub = append(sub, c.originsIP(cs.Parent(), cs.Common().Args[idx], depth+1)...)
				}
				if resolved {
					out = append(out, sub...)
					continue
				}
			}
			out = append(out, o)
		case "call":
			call, _ := o.V.(*ssa.Call)
			if call != nil {
				if callee := call.Call.StaticCallee(); callee != nil && callee.Pkg != nil && strings.HasPrefix(callee.Pkg.Pkg.Path(), modPath) && len(callee.Blocks) > 0 && depth < 3 && callee.Signature.Results().Len() == 1 {
					// the helper's result, with its parameters bound to this call's arguments
					for _, ret := range returnsOf(callee) {
						if len(ret.Results) != 1 {
							continue
						}
						for _, ro := range origins(ret.Results[0], sliceOpts{}) {
							if par, ok := ro.V.(*ssa.Parameter); ok && ro.Kind == "param" {
								if idx := paramIndex(callee, par); idx >= 0 && idx < len(call.Call.Args) {
									out = append(out, c.originsIP(fn, call.Call.Args[idx], depth+1)...)
									continue
								}
							}
							if ro.Kind == "call" {
								if inner, ok := ro.V.(*ssa.Call); ok {
									out = append(out, c.originsIP(callee, inner, depth+1)...)
									continue
								}
							}
							out = append(out, ro)
						}
					}
					continue
				}
			}
			out = append(out, o)
		default:
			out = append(out, o)
		}
	}
	return out
}

// leafSet renders the distinct leaves, ignoring constants when asked.
func leafSet(os []Origin, skipConst bool) []string {
	m := map[string]bool{}
	for _, o := range os {
		if skipConst && o.Kind == "const" {
			continue
		}
		m[o.Kind+":"+o.Desc] = true
	}
	var ks []string
	for k := range m {
		ks = append(ks, k)
	}
	sort.Strings(ks)
	return ks
}
