package main

// Byte-layout evaluation of wire codecs (C18): the parser is path-evaluated on a symbolic input
// `src` of a concrete length L; every field it fills is tracked as a byte range of src (possibly
// through a fixed-width integer decoding of a given byte order). The serialiser is then evaluated
// on that very object, its output is tracked as a sequence of pieces, and the pieces - translated
// back to byte ranges - must be exactly src[0:L] in order. Nothing is executed; byte values stay
// symbolic, only lengths are concrete.

import (
	"fmt"
	"go/ast"
	"go/constant"
	"go/types"
	"regexp"
	"strconv"
	"strings"

	"golang.org/x/tools/go/packages"
	"golang.org/x/tools/go/ssa"
)

type piece struct {
	lo, hi int64
	ok     bool
	desc   string
}

var (
	rngRe   = regexp.MustCompile(`^src\[(\d+):(\d+)\]$`)
	idxRe   = regexp.MustCompile(`^src\[(\d+):(\d+)\]\[(\d+)\]$`)
	idx0Re  = regexp.MustCompile(`^src\[(\d+)\]$`)
	decRe   = regexp.MustCompile(`^(BE|LE)\.U(\d+)\((.*)\)$`)
	constRe = regexp.MustCompile(`^#(\d+)$`)
)

func byteOrderOf(t types.Type) string {
	s := typeStr(t)
	switch {
	case strings.HasSuffix(s, "bigEndian"):
		return "BE"
	case strings.HasSuffix(s, "littleEndian"):
		return "LE"
	}
	return "?"
}

func bytesSV(pieces []SV, cp *SV) SV {
	var n int64
	known := true
	for _, p := range pieces {
		if p.Len != nil && p.Len.Known {
			n += p.Len.N
		} else {
			known = false
		}
	}
	r := SV{K: "bytes", Desc: "bytes", Elems: pieces, Cap: cp}
	if known {
		l := symInt(n)
		r.Len = &l
	}
	var ds []string
	for _, p := range pieces {
		ds = append(ds, p.Desc)
	}
	r.Desc = "bytes{" + strings.Join(ds, " ") + "}"
	return r
}

func lenSV(n int64) *SV { l := symInt(n); return &l }

// piecesOf views a value as output pieces.
func piecesOf(v SV) ([]SV, bool) {
	switch {
	case v.K == "bytes":
		return v.Elems, true
	case (v.K == "slice" || v.K == "opaque") && v.Len != nil && v.Len.Known && v.Len.N == 0:
		return nil, true
	case (v.K == "slice" || v.K == "opaque") && v.Len != nil && v.Len.Known:
		return []SV{{K: "piece", Desc: v.Desc, Len: v.Len}}, true
	}
	return nil, false
}

// sizeOfFixed returns the encoded size of a fixed-size type as encoding/binary sees it.
func sizeOfFixed(t types.Type) (int64, bool) {
	switch u := t.Underlying().(type) {
	case *types.Basic:
		switch u.Kind() {
		case types.Uint8, types.Int8, types.Bool:
			return 1, true
		case types.Uint16, types.Int16:
			return 2, true
		case types.Uint32, types.Int32:
			return 4, true
		case types.Uint64, types.Int64:
			return 8, true
		}
	case *types.Array:
		e, ok := sizeOfFixed(u.Elem())
		return e * u.Len(), ok
	case *types.Struct:
		var n int64
		for i := 0; i < u.NumFields(); i++ {
			e, ok := sizeOfFixed(u.Field(i).Type())
			if !ok {
				return 0, false
			}
			n += e
		}
		return n, true
	}
	return 0, false
}

// codecModel implements the library summaries used by the layout evaluation.
func codecModel(callee string, args []SV, ev *symEval, st *symState) (SV, bool) {
	nonNil := func(d string) SV { return SV{K: "ref", Known: true, Desc: d} }
	switch {
	case callee == "modules/l4openvpn.(*MessageHeader).FromBytes":
		// lemma C18.R3 (checked exhaustively): the header byte splits into opcode/key id and joins back
		if args[1].Len == nil || !args[1].Len.Known || args[1].Len.N != 1 {
			return nonNil("ErrInvalidSourceLength"), true
		}
		st.heap[args[0].Desc+".Opcode"] = SV{K: "int", Desc: "opcode(" + args[1].Desc + ")"}
		st.heap[args[0].Desc+".KeyID"] = SV{K: "int", Desc: "keyid(" + args[1].Desc + ")"}
		return symNil(), true
	case callee == "modules/l4openvpn.(*MessageHeader).ToBytes":
		o, k := st.heap[args[0].Desc+".Opcode"], st.heap[args[0].Desc+".KeyID"]
		if strings.HasPrefix(o.Desc, "opcode(") && strings.TrimPrefix(o.Desc, "opcode(") == strings.TrimPrefix(k.Desc, "keyid(") {
			d := strings.TrimSuffix(strings.TrimPrefix(o.Desc, "opcode("), ")")
			return bytesSV([]SV{{K: "piece", Desc: d, Len: lenSV(1)}}, nil), true
		}
		return bytesSV([]SV{{K: "piece", Desc: "header(" + o.Desc + "," + k.Desc + ")", Len: lenSV(1)}}, nil), true
	case callee == "bytes.NewBuffer":
		id := ev.fresh("buf")
		if args[0].Len != nil && args[0].Len.Known && strings.HasPrefix(args[0].Desc, "src") && args[0].Len.N > 0 || rngRe.MatchString(args[0].Desc) || args[0].Desc == "src" {
			st.heap[id+".data"] = args[0]
			st.heap[id+".pos"] = symInt(0)
		} else {
			st.heap[id+".out"] = bytesSV(nil, args[0].Cap)
		}
		return SV{K: "ref", Known: true, Desc: id}, true
	case callee == "(*bytes.Buffer).Len":
		if d, ok := st.heap[args[0].Desc+".data"]; ok && d.Len != nil {
			return symInt(d.Len.N - st.heap[args[0].Desc+".pos"].N), true
		}
	case callee == "(*bytes.Buffer).Bytes":
		if d, ok := st.heap[args[0].Desc+".data"]; ok {
			lo, hi := absRange(d)
			pos := st.heap[args[0].Desc+".pos"].N
			return SV{K: "slice", Desc: fmt.Sprintf("src[%d:%d]", lo+pos, hi), Len: lenSV(hi - lo - pos)}, true
		}
		if o, ok := st.heap[args[0].Desc+".out"]; ok {
			return o, true
		}
	case callee == "encoding/binary.Read" || callee == "encoding/binary.Write":
		call := ev.curCall
		order := "?"
		if mi, ok := call.Call.Args[1].(*ssa.MakeInterface); ok {
			order = byteOrderOf(mi.X.Type())
		}
		var pt types.Type
		if mi, ok := call.Call.Args[2].(*ssa.MakeInterface); ok {
			pt = mi.X.Type()
		} else if args[2].DynT != nil {
			pt = args[2].DynT // an interface value built elsewhere (e.g. an element of a list of field pointers)
		}
		ptr, isPtr := pt.(*types.Pointer)
		if !isPtr {
			return nonNil("binary: unsupported data argument"), true
		}
		buf := args[0].Desc
		base := args[2].Desc
		type leaf struct {
			addr string
			size int64
			bits int64
		}
		var leaves []leaf
		var walk func(t types.Type, addr string) bool
		walk = func(t types.Type, addr string) bool {
			switch u := t.Underlying().(type) {
			case *types.Struct:
				for i := 0; i < u.NumFields(); i++ {
					if !walk(u.Field(i).Type(), addr+"."+canonFieldName(u.Field(i))) {
						return false
					}
				}
				return true
			case *types.Basic:
				n, ok := sizeOfFixed(t)
				leaves = append(leaves, leaf{addr, n, n * 8})
				return ok
			case *types.Array:
				n, ok := sizeOfFixed(t)
				leaves = append(leaves, leaf{addr, n, 0})
				return ok
			}
			return false
		}
		if !walk(ptr.Elem(), base) {
			return nonNil("binary: unsupported type"), true
		}
		if callee == "encoding/binary.Read" {
			data, ok := st.heap[buf+".data"]
			if !ok {
				return nonNil("binary.Read from unknown reader"), true
			}
			lo, hi := absRange(data)
			pos := st.heap[buf+".pos"].N
			for _, lf := range leaves {
				if lo+pos+lf.size > hi {
					return nonNil("io.ErrUnexpectedEOF"), true
				}
				a, b := lo+pos, lo+pos+lf.size
				if lf.bits > 0 {
					st.heap[lf.addr] = SV{K: "int", Desc: fmt.Sprintf("%s.U%d(src[%d:%d])", order, lf.bits, a, b)}
				} else {
					st.heap[lf.addr] = SV{K: "opaque", Desc: fmt.Sprintf("src[%d:%d]", a, b), Len: lenSV(lf.size)}
				}
				pos += lf.size
			}
			st.heap[buf+".pos"] = symInt(pos)
			return symNil(), true
		}
		out, ok := st.heap[buf+".out"]
		if !ok {
			return nonNil("binary.Write to unknown writer"), true
		}
		ps := out.Elems
		for _, lf := range leaves {
			v, ok := st.heap[lf.addr]
			d := "field " + lf.addr
			if ok {
				d = v.Desc
			}
			if lf.bits > 0 {
				d = fmt.Sprintf("%s.U%d(%s)", order, lf.bits, d)
			}
			ps = append(ps, SV{K: "piece", Desc: d, Len: lenSV(lf.size)})
		}
		st.heap[buf+".out"] = bytesSV(ps, out.Cap)
		return symNil(), true
	case strings.HasPrefix(callee, "(encoding/binary.bigEndian).") || strings.HasPrefix(callee, "(encoding/binary.littleEndian)."):
		order := "BE"
		if strings.Contains(callee, "littleEndian") {
			order = "LE"
		}
		m := callee[strings.LastIndex(callee, ".")+1:]
		switch {
		case strings.HasPrefix(m, "Uint"):
			bits, _ := strconv.ParseInt(strings.TrimPrefix(m, "Uint"), 10, 64)
			s := args[1]
			if s.Len != nil && s.Len.Known && s.Len.N < bits/8 {
				st.trace = append(st.trace, Event{Kind: "oob", What: callee, Args: []string{s.Desc}})
			}
			d := s.Desc
			if lo, _, ok := descRange(s.Desc); ok {
				d = fmt.Sprintf("src[%d:%d]", lo, lo+bits/8)
			}
			return SV{K: "int", Desc: fmt.Sprintf("%s.U%d(%s)", order, bits, d)}, true
		case strings.HasPrefix(m, "AppendUint"):
			bits, _ := strconv.ParseInt(strings.TrimPrefix(m, "AppendUint"), 10, 64)
			ps, ok := piecesOf(args[1])
			if !ok {
				return SV{}, false
			}
			v := args[2]
			d := v.Desc
			if v.K == "int" && v.Known {
				d = fmt.Sprintf("#%d", v.N)
			}
			ps = append(append([]SV(nil), ps...), SV{K: "piece", Desc: fmt.Sprintf("%s.U%d(%s)", order, bits, d), Len: lenSV(bits / 8)})
			return bytesSV(ps, args[1].Cap), true
		}
	case callee == "builtin append":
		ps, ok := piecesOf(args[0])
		if !ok || len(args) != 2 {
			return SV{}, false
		}
		// is the destination a byte slice?
		if sl, isSl := ev.curCall.Call.Args[0].Type().Underlying().(*types.Slice); !isSl || typeStr(sl.Elem()) != "uint8" && typeStr(sl.Elem()) != "byte" {
			return SV{}, false
		}
		ps = append([]SV(nil), ps...)
		a := args[1]
		if strings.HasPrefix(a.Desc, "cell:varargs") || strings.HasPrefix(a.Desc, "new [") {
			// individual byte arguments
			for i := int64(0); a.Len != nil && i < a.Len.N; i++ {
				v, ok := st.heap[fmt.Sprintf("%s[%d]", a.Desc, i)]
				d := "?"
				if ok {
					d = v.Desc
					if v.K == "int" && v.Known {
						d = fmt.Sprintf("#%d", v.N)
					}
				}
				ps = append(ps, SV{K: "piece", Desc: d, Len: lenSV(1)})
			}
		} else if aps, ok := piecesOf(a); ok {
			ps = append(ps, aps...)
		} else if a.K == "str" && a.Len != nil && a.Len.Known {
			ps = append(ps, SV{K: "piece", Desc: a.Desc, Len: a.Len})
		} else {
			ps = append(ps, SV{K: "piece", Desc: a.Desc})
		}
		return bytesSV(ps, args[0].Cap), true
	case callee == "slices.Concat[[]byte byte]" || strings.HasPrefix(callee, "slices.Concat"):
		var ps []SV
		a := args[0]
		for i := int64(0); a.Len != nil && i < a.Len.N; i++ {
			v := st.heap[fmt.Sprintf("%s[%d]", a.Desc, i)]
			p, ok := piecesOf(v)
			if !ok {
				p = []SV{{K: "piece", Desc: v.Desc}}
			}
			ps = append(ps, p...)
		}
		return bytesSV(ps, nil), true
	case callee == "slices.Contains[[]int int]" || strings.HasPrefix(callee, "slices.Contains"):
		return SV{K: "bool", Desc: ev.fresh("contains")}, true
	}
	return SV{}, false
}

func absRange(v SV) (int64, int64) {
	if lo, hi, ok := descRange(v.Desc); ok {
		return lo, hi
	}
	if v.Len != nil && v.Len.Known {
		return 0, v.Len.N
	}
	return 0, 0
}

func descRange(d string) (int64, int64, bool) {
	if m := rngRe.FindStringSubmatch(d); m != nil {
		a, _ := strconv.ParseInt(m[1], 10, 64)
		b, _ := strconv.ParseInt(m[2], 10, 64)
		return a, b, true
	}
	if m := idxRe.FindStringSubmatch(d); m != nil {
		a, _ := strconv.ParseInt(m[1], 10, 64)
		i, _ := strconv.ParseInt(m[3], 10, 64)
		return a + i, a + i + 1, true
	}
	if m := idx0Re.FindStringSubmatch(d); m != nil {
		a, _ := strconv.ParseInt(m[1], 10, 64)
		return a, a + 1, true
	}
	return 0, 0, false
}

// pieceRange translates an output piece back to the byte range of src it reproduces.
func pieceRange(p SV, assume []string) piece {
	d := p.Desc
	if lo, hi, ok := descRange(d); ok {
		return piece{lo, hi, true, d}
	}
	if m := decRe.FindStringSubmatch(d); m != nil {
		bits, _ := strconv.ParseInt(m[2], 10, 64)
		inner := m[3]
		// re-encoding of a value decoded with the same order and width
		if m2 := decRe.FindStringSubmatch(inner); m2 != nil && m2[1] == m[1] && m2[2] == m[2] {
			if lo, hi, ok := descRange(m2[3]); ok && hi-lo == bits/8 {
				return piece{lo, hi, true, d}
			}
		}
		if bits == 8 {
			if lo, hi, ok := descRange(inner); ok && hi-lo == 1 {
				return piece{lo, hi, true, d}
			}
			if m2 := decRe.FindStringSubmatch(inner); m2 != nil && m2[2] == "8" {
				if lo, hi, ok := descRange(m2[3]); ok && hi-lo == 1 {
					return piece{lo, hi, true, d}
				}
			}
		}
		// a constant that the parser checked to equal the decoded field
		if mc := constRe.FindStringSubmatch(inner); mc != nil {
			for _, a := range assume {
				// "(N != BE.U16(src[a:b]))=false"
				pre := "(" + mc[1] + " != " + m[1] + ".U" + m[2] + "("
				if strings.HasPrefix(a, pre) && strings.HasSuffix(a, "))=false") {
					if lo, hi, ok := descRange(strings.TrimSuffix(strings.TrimPrefix(a, pre), "))=false")); ok {
						return piece{lo, hi, true, d}
					}
				}
			}
		}
	}
	// single byte decoded by binary.Read as U8 and appended as byte
	return piece{0, 0, false, d}
}

type codecSpec struct {
	pkg, typ   string
	parse, ser string
	minC, maxC string // constants of the package (names) or literal numbers; maxC "" = unbounded
	fixed      bool
	extraLens  []int64
}

func constByName(c *Ctx, pkg, name string) (int64, bool) {
	if v, err := strconv.ParseInt(name, 10, 64); err == nil {
		return v, true
	}
	for _, p := range c.Pkgs {
		if short(p.PkgPath) == pkg {
			if o := scopeLookup(p.Types, name); o != nil {
				v := constOf(o)
				return v, v >= 0
			}
		}
	}
	return 0, false
}

// evalCodecRoundTrip checks one type; it reports obligations under rule.
func evalCodecRoundTrip(c *Ctx, r *Report, rule string, sp codecSpec) {
	pname := fmt.Sprintf("%s.(*%s).%s", sp.pkg, sp.typ, sp.parse)
	sname := fmt.Sprintf("%s.(*%s).%s", sp.pkg, sp.typ, sp.ser)
	pf, sf := c.Fn(pname), c.Fn(sname)
	if pf == nil || sf == nil {
		r.bad(rule, pname, "exists", "-", "parser or serialiser not found ("+pname+", "+sname+")")
		return
	}
	min, ok1 := constByName(c, sp.pkg, sp.minC)
	max := int64(-1)
	ok2 := true
	if sp.maxC != "" {
		max, ok2 = constByName(c, sp.pkg, sp.maxC)
	}
	if !ok1 || !ok2 {
		r.bad(rule, pname, "size constants", "-", "size constants "+sp.minC+"/"+sp.maxC+" not found")
		return
	}
	lens := map[int64]bool{min - 1: true, min: true, min + 1: true}
	if min > 1 {
		lens[0] = true
	}
	if max >= 0 {
		lens[max-1], lens[max], lens[max+1], lens[max+7] = true, true, true, true
		if max > min+4 {
			lens[(min+max)/2] = true
		}
	} else {
		lens[min+5], lens[min+16] = true, true
	}
	for _, l := range sp.extraLens {
		lens[l] = true
	}
	inline := func(f *ssa.Function) bool {
		if f.Pkg == nil || short(f.Pkg.Pkg.Path()) != sp.pkg {
			return false
		}
		n := f.Name()
		return strings.HasPrefix(n, "FromBytes") || strings.HasPrefix(n, "ToBytes") || strings.HasPrefix(n, "FromChunks") || strings.HasPrefix(n, "ToChunks")
	}
	var problems []string
	accepted, rejected, roundTrips := 0, 0, 0
	for L := range lens {
		if L < 0 {
			continue
		}
		sc := &Scenario{Name: fmt.Sprintf("len=%d", L), MaxVisit: 40, MaxPaths: 20000,
			Params: map[string]SV{"recv": symRef("recv", false), "p0": {K: "slice", Desc: "src", Len: lenSV(L), Cap: lenSV(L)}, "p1": symRef("hdr", false)},
			Inline: inline, Call: codecModel, ZeroRecv: true, Heap: map[string]SV{},
		}
		sentinelErrors(c, sp.pkg, sc.Heap)
		if ds, ok := defaultDigestSize(c); ok && sp.pkg == "modules/l4openvpn" {
			sc.Heap["global:modules/l4openvpn.AuthDigestDefault"] = symRef("AuthDigestDefault", false)
			sc.Heap["AuthDigestDefault.Size"] = symInt(ds)
		}
		if L == 0 {
			sc.Params["p0"] = SV{K: "slice", Desc: "src", Len: lenSV(0), Cap: lenSV(0)}
		}
		paths, err := evalPaths(pf, sc)
		if err != nil || len(paths) == 0 {
			problems = append(problems, fmt.Sprintf("undecided for length %d: %v", L, err))
			continue
		}
		inBounds := L >= min && (max < 0 || L <= max)
		if sp.fixed {
			inBounds = L == min
		}
		anyAccept := false
		for _, p := range paths {
			if p.Outcome != "return" || len(p.Ret) != 1 {
				if p.Outcome == "panic" {
					problems = append(problems, fmt.Sprintf("length %d: the parser can panic", L))
				}
				continue
			}
			for _, e := range p.Trace {
				if e.Kind == "oob" {
					problems = append(problems, fmt.Sprintf("length %d: %s reads beyond %s", L, e.What, e.Args[0]))
				}
			}
			ok := p.Ret[0].Known && p.Ret[0].Nil
			if !ok {
				continue
			}
			anyAccept = true
			if !inBounds {
				problems = append(problems, fmt.Sprintf("an input of %d bytes is accepted although the type's size bounds are [%d,%s]: the parser truncates or pads instead of rejecting", L, min, map[bool]string{true: fmt.Sprint(max), false: "inf"}[max >= 0]))
				continue
			}
			// serialise that object
			heap := map[string]SV{}
			for k, v := range p.Heap {
				if strings.HasPrefix(k, "recv.") {
					heap[k] = v
				}
			}
			sentinelErrors(c, sp.pkg, heap)
			sc2 := &Scenario{Name: sc.Name, MaxVisit: 40, Params: map[string]SV{"recv": symRef("recv", false)}, Heap: heap, Inline: inline, Call: codecModel, Assume: map[string]bool{}, ZeroRecv: true}
			for _, a := range p.Assume {
				i := strings.LastIndex(a, "=")
				sc2.Assume[a[:i]] = a[i+1:] == "true"
			}
			outs, err := evalPaths(sf, sc2)
			if err != nil || len(outs) == 0 {
				problems = append(problems, fmt.Sprintf("length %d: serialiser undecided: %v", L, err))
				continue
			}
			for _, o := range outs {
				if o.Outcome != "return" || len(o.Ret) == 0 {
					continue
				}
				if len(o.Ret) == 2 && !(o.Ret[1].Known && o.Ret[1].Nil) {
					continue // error path of the serialiser
				}
				ps, isBytes := piecesOf(o.Ret[0])
				if !isBytes {
					problems = append(problems, fmt.Sprintf("length %d: serialiser output not understood (%s)", L, o.Ret[0].Desc))
					continue
				}
				pos := int64(0)
				good := true
				var layout []string
				for _, pc := range ps {
					pr := pieceRange(pc, append(append([]string{}, p.Assume...), o.Assume...))
					layout = append(layout, pc.Desc)
					if !pr.ok || pr.lo != pos {
						good = false
						break
					}
					pos = pr.hi
				}
				if !good || pos != L {
					problems = append(problems, fmt.Sprintf("parse(%d bytes) then serialise does not reproduce the input: output layout is [%s] (%d of %d bytes reproduced in order)", L, strings.Join(layout, " | "), pos, L))
				} else {
					roundTrips++
				}
			}
		}
		if anyAccept {
			accepted++
		} else {
			rejected++
			if inBounds {
				problems = append(problems, fmt.Sprintf("an input of %d bytes (inside the size bounds) is rejected on every path", L))
			}
		}
	}
	r.check(len(problems) == 0 && roundTrips > 0, rule, pname, "layout round trip", c.pos(pf.Pos()), fmt.Sprintf("%d lengths tried: %d accepted, %d rejected, %d parse/serialise paths reproduce src byte for byte", len(lens), accepted, rejected, roundTrips), strings.Join(dedup(problems), "\n"))
}

// defaultDigestSize resolves modules/l4openvpn.AuthDigestDefault.Size from the source: the name literal
// passed to AuthDigestFindByName in the variable's initialiser is looked up in the digest table literal.
func defaultDigestSize(c *Ctx) (int64, bool) {
	var pkg *packages.Package
	for _, p := range c.Pkgs {
		if short(p.PkgPath) == "modules/l4openvpn" {
			pkg = p
		}
	}
	if pkg == nil {
		return 0, false
	}
	name := ""
	for _, f := range pkg.Syntax {
		ast.Inspect(f, func(n ast.Node) bool {
			vs, ok := n.(*ast.ValueSpec)
			if !ok || len(vs.Names) != 1 || vs.Names[0].Name != "AuthDigestDefault" || len(vs.Values) != 1 {
				return true
			}
			if call, ok := vs.Values[0].(*ast.CallExpr); ok && len(call.Args) == 1 {
				if tv, ok := pkg.TypesInfo.Types[call.Args[0]]; ok && tv.Value != nil {
					name = constant.StringVal(tv.Value)
				}
			}
			return true
		})
	}
	if name == "" {
		return 0, false
	}
	size, found := int64(0), false
	for _, f := range pkg.Syntax {
		ast.Inspect(f, func(n ast.Node) bool {
			cl, ok := n.(*ast.CompositeLit)
			if !ok {
				return true
			}
			hasName := false
			var sizeExpr ast.Expr
			for _, el := range cl.Elts {
				kv, ok := el.(*ast.KeyValueExpr)
				if !ok {
					continue
				}
				k, _ := kv.Key.(*ast.Ident)
				if k == nil {
					continue
				}
				if k.Name == "Names" {
					if ncl, ok := kv.Value.(*ast.CompositeLit); ok {
						for _, ne := range ncl.Elts {
							if tv, ok := pkg.TypesInfo.Types[ne]; ok && tv.Value != nil && tv.Value.Kind() == constant.String && constant.StringVal(tv.Value) == name {
								hasName = true
							}
						}
					}
				}
				if k.Name == "Size" {
					sizeExpr = kv.Value
				}
			}
			if hasName && sizeExpr != nil {
				if tv, ok := pkg.TypesInfo.Types[sizeExpr]; ok && tv.Value != nil {
					if v, ok := constant.Int64Val(constant.ToInt(tv.Value)); ok {
						size, found = v, true
					}
				}
			}
			return true
		})
	}
	return size, found
}

// sentinelErrors: the package-level error variables made by errors.New are non-nil values (part of the program text).
func sentinelErrors(c *Ctx, pkgShort string, heap map[string]SV) {
	pk := c.ByPath[modPath+"/"+pkgShort]
	if pk == nil {
		return
	}
	sp := c.SSA[pk.PkgPath]
	if sp == nil {
		return
	}
	for name, mem := range sp.Members {
		g, ok := mem.(*ssa.Global)
		if !ok {
			continue
		}
		if varInitIsNewError(c, pkgShort, name) {
			key := "global:" + globalName(g)
			heap[key] = SV{K: "ref", Known: true, Desc: key}
		}
	}
}
