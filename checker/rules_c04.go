package main

import (
	"bytes"
	"encoding/json"
	"fmt"
	"go/ast"
	"go/constant"
	"go/printer"
	"go/token"
	"go/types"
	"os"
	"path/filepath"
	"sort"
	"strings"

	"golang.org/x/tools/go/ssa"
)

func init() {
	register(&property{
		ID:          "C04",
		Explanation: "Static decision of the crash- and allocation-safety obligations of all code that runs per connection (everything reachable from Match/Handle/Select/handle in the module): (R1) every index and slice operation is an obligation 0 <= i < len / lo <= hi <= len; each is discharged by the bounds prover (difference-constraint reasoning over go/ssa from type widths, make/slice definitions, io.Reader/copy/IndexByte contracts, loop-index induction and the dominating branch conditions) or must be listed, with a reason, in the reviewed table specs/audited_bounds.json - a site that is neither proven nor audited is a violation naming function and expression; (R2) every make() with a non-constant size has a proven constant upper bound of at most 64 KiB + 1 KiB; (R3) dynamic-type agreement: every unchecked type assertion on a value taken from the connection's variable table / context / replacer under a constant key has, for that key, only producers of an identical or implementing type; (R4) every division, modulo and rand.Intn with a non-constant operand has the operand proven >= 1; (R5) no explicit panic, Must* or log.Fatal* is reachable; (R6) no method is called on a possibly-nil pool slot (path evaluation of the selection policies); (R7) the postgres matcher evaluated path by path for declared lengths 0..16, 8192, 8193, 2^30, 2^32-1 with symbolic content: no out-of-range access, no allocation outside [8, 8192]; (R8) every other unchecked type assertion is justified - boxed from the asserted type, keyed producers, sync.Pool New/Put producers, or path evaluation (the http2 frame loop over every frame sequence). Sites of R1 that the prover cannot discharge but that the scenario tables of C01.R3/R4, C02.R7 (route lists of 0..3 routes), C05.R5, C04.R7, C09.R7, C17.R1 evaluate with concrete lengths are discharged by those evaluations (never out of range); the rest must be in the audited table, keyed by home function and indexed object.",
		NotDecided:  "Panics and allocation inside third-party parsers (dns.Msg.Unpack, http.ReadRequest, hpack, quic-go, proxyprotocol.Parse, go-socks5) - trusted base; nil dereferences in general; stack depth; the audited sites of R1 rest on the stated reason, not on a machine proof.",
		Run:         runC04,
	})
}

func runC04(c *Ctx, r *Report) {
	// the scenario tables of other rules evaluate some functions with concrete lengths; their verdicts on
	// the index/slice operations they pass (boundsSeen) discharge those sites in R1
	c04Postgres(c, r, "C04.R7")
	ev := newReport("tmp")
	c01R3(c, ev, "T.R3")
	c01R4(c, ev, "T.R4")
	c05R5(c, ev, "T.R5")
	c09R7(c, ev, "T.R7")
	c17Read(c, ev)
	c02Router(c, ev, "T.R2") // the compiled route handler over lists of 0..3 routes and every verdict sequence
	tmp := newReport("tmp")
	c10Policies(c, tmp) // also evaluates the policies' divisions with concrete counters
	c04Bounds(c, r)
	c04R3(c, r, "C04.R3")
	c04R5(c, r, "C04.R5")
	c04ProvisionedPointers(c, r, "C04.R10")
	c01R1(c, r, "C04.R11") // matchers only ever run frozen: an unfrozen matcher reads from the socket, and one that reads until the data ends (dns over UDP) buffers whatever the peer sends
	nilFieldContradictions(c, r, "C04.R12", 1, func(fn *ssa.Function) bool { return fn.Pkg != nil && strings.HasPrefix(fn.Pkg.Pkg.Path(), modPath) })
	c04PublishedWithError(c, r, "C04.R13")
	c04BoundedParsers(c, r, "C04.R14")
	c04PreparedRequest(c, r, "C04.R15")
	c04HelloConn(c, r, "C04.R16")
	c04HeaderAddrs(c, r, "C04.R17")
	c09CloseOnce(c, r, "C04.R18") // no history of calls on a UDP connection ends the process: a handler (or a library given the connection) that closes it must not make the server's own Close close the channel a second time
	c08QuicAddr(c, r, "C04.R9")   // a panic of the library, reachable with two simultaneous datagrams
	// R6
	r.rule("C04.R6", "no method call on a nil upstream slot in any selection policy (path evaluation, pools of 0..3)", 6)
	for _, o := range tmp.Obls {
		if o.Rule == "C10.R1" {
			parts := strings.SplitN(o.Key, "|", 3)
			if o.OK {
				r.ok("C04.R6", parts[1], parts[2], o.Pos, o.Detail)
			} else {
				r.bad("C04.R6", parts[1], parts[2], o.Pos, o.Detail)
			}
		}
	}
}

// An audited site is identified by its home function (the function itself, or - for an unexported helper
// with a single caller - that caller, so that extracting a helper does not lose the entry) and by what is
// indexed/sliced (kind of operation + the object it applies to), not by the text of the expression.
type auditedEntry struct {
	Func   string `json:"func"`
	Site   string `json:"site"`
	Expr   string `json:"expr"` // informational: the expression on the pinned tree
	Reason string `json:"reason"`
}

func baseDesc(v ssa.Value, depth int) string {
	if depth > 8 {
		return typeStr(v.Type())
	}
	switch x := v.(type) {
	case *ssa.ChangeType:
		return baseDesc(x.X, depth+1)
	case *ssa.Convert:
		return baseDesc(x.X, depth+1)
	case *ssa.Slice:
		return baseDesc(x.X, depth+1)
	case *ssa.TypeAssert:
		return baseDesc(x.X, depth+1)
	case *ssa.Extract:
		return baseDesc(x.Tuple, depth+1)
	case *ssa.UnOp:
		if x.Op == token.MUL {
			if _, sn, f, ok := fieldAddr(x.X); ok {
				return sn + "." + f
			}
			if al, ok := x.X.(*ssa.Alloc); ok {
				for _, st := range storesTo(al) {
					return baseDesc(st, depth+1)
				}
			}
			return baseDesc(x.X, depth+1)
		}
	case *ssa.Field:
		if _, sn, f, ok := fieldAddr(x); ok {
			return sn + "." + f
		}
	case *ssa.FieldAddr:
		if _, sn, f, ok := fieldAddr(x); ok {
			return sn + "." + f
		}
	case *ssa.Call:
		// a wrapper that only hands out what it took from a pool is named after the pool's Get
		if f := x.Call.StaticCallee(); f != nil && f.Pkg != nil && strings.HasPrefix(f.Pkg.Pkg.Path(), modPath) && len(f.Blocks) > 0 && poolGetter(f) != nil {
			return "result of (*sync.Pool).Get"
		}
		return "result of " + calleeID(x)
	case *ssa.Parameter:
		return "parameter of type " + typeStr(x.Type())
	case *ssa.Phi:
		for _, e := range x.Edges {
			if _, isC := e.(*ssa.Const); !isC {
				return baseDesc(e, depth+1)
			}
		}
	case *ssa.BinOp:
		return "arithmetic"
	}
	return "value of type " + typeStr(v.Type())
}

func siteKey(in ssa.Instruction) string {
	switch x := in.(type) {
	case *ssa.Slice:
		return "slice " + baseDesc(x.X, 0)
	case *ssa.IndexAddr:
		return "index " + baseDesc(x.X, 0)
	case *ssa.Index:
		return "index " + baseDesc(x.X, 0)
	case *ssa.MakeSlice:
		return "make " + typeStr(x.Type())
	case *ssa.BinOp:
		return "divide by " + baseDesc(x.Y, 0)
	case *ssa.Call:
		if buf, _ := byteOrderNeed(x); buf != nil {
			return "byteorder " + baseDesc(buf, 0)
		}
		return "Intn"
	}
	return "?"
}

// homeChain lists fn and the functions it can be attributed to: a closure to its parent, an unexported
// helper with exactly one calling function to that caller (up to three steps). An audited entry of any of
// them covers the site, so that extracting a helper from an audited function does not lose the entry.
func (c *Ctx) homeChain(fn *ssa.Function) []*ssa.Function {
	out := []*ssa.Function{fn}
	for d := 0; d < 3; d++ {
		if fn.Parent() != nil {
			fn = fn.Parent()
			out = append(out, fn)
			continue
		}
		if token.IsExported(fn.Name()) {
			break
		}
		callers := map[*ssa.Function]bool{}
		for _, g := range c.Funcs {
			for _, ci := range callsIn(g) {
				if ci.Common().StaticCallee() == fn {
					callers[g] = true
				}
			}
		}
		if len(callers) != 1 || callers[fn] {
			break
		}
		for g := range callers {
			fn = g
		}
		out = append(out, fn)
	}
	return out
}

func loadAudited() (map[string]string, error) {
	raw, err := os.ReadFile(filepath.Join(verifDir, "specs", "audited_bounds.json"))
	if err != nil {
		return nil, err
	}
	var f struct {
		Entries []auditedEntry `json:"entries"`
	}
	if err := json.Unmarshal(raw, &f); err != nil {
		return nil, err
	}
	m := map[string]string{}
	for _, e := range f.Entries {
		m[e.Func+"|"+e.Site] = e.Reason
	}
	return m, nil
}

// exprAt renders the source expression whose bracket/paren is at pos, with the function's local
// variables alpha-renamed by order of first occurrence (position independent, rename tolerant).
func (c *Ctx) exprAt(fn *ssa.Function, pos token.Pos) string {
	if !pos.IsValid() {
		return ""
	}
	pkg, file := c.fileOf(pos)
	if file == nil {
		return ""
	}
	var found ast.Expr
	var fd ast.Node
	ast.Inspect(file, func(n ast.Node) bool {
		if n == nil {
			return false
		}
		if n.Pos() > pos || n.End() < pos {
			return false
		}
		switch x := n.(type) {
		case *ast.FuncDecl:
			fd = x
		case *ast.IndexExpr:
			if x.Lbrack == pos {
				found = x
			}
		case *ast.SliceExpr:
			if x.Lbrack == pos {
				found = x
			}
		case *ast.CallExpr:
			if x.Lparen == pos && found == nil {
				found = x
			}
		case *ast.BinaryExpr:
			if x.OpPos == pos && found == nil {
				found = x
			}
		}
		return true
	})
	if found == nil {
		return ""
	}
	// alpha-rename locals
	ren := map[types.Object]string{}
	if fd != nil {
		ast.Inspect(fd, func(n ast.Node) bool {
			id, ok := n.(*ast.Ident)
			if !ok {
				return true
			}
			obj := pkg.TypesInfo.ObjectOf(id)
			v, isVar := obj.(*types.Var)
			if !isVar || v.IsField() || v.Parent() == pkg.Types.Scope() || v.Parent() == types.Universe {
				return true
			}
			if _, seen := ren[obj]; !seen {
				ren[obj] = fmt.Sprintf("v%d", len(ren)+1)
			}
			return true
		})
	}
	var buf bytes.Buffer
	cp := renameIdents(found, pkg.TypesInfo, ren)
	_ = printer.Fprint(&buf, token.NewFileSet(), cp)
	return strings.Join(strings.Fields(buf.String()), " ")
}

func renameIdents(e ast.Expr, info *types.Info, ren map[types.Object]string) ast.Expr {
	switch x := e.(type) {
	case *ast.Ident:
		if n, ok := ren[info.ObjectOf(x)]; ok {
			return &ast.Ident{Name: n}
		}
		return &ast.Ident{Name: x.Name}
	case *ast.IndexExpr:
		return &ast.IndexExpr{X: renameIdents(x.X, info, ren), Index: renameIdents(x.Index, info, ren)}
	case *ast.SliceExpr:
		r := &ast.SliceExpr{X: renameIdents(x.X, info, ren), Slice3: x.Slice3}
		if x.Low != nil {
			r.Low = renameIdents(x.Low, info, ren)
		}
		if x.High != nil {
			r.High = renameIdents(x.High, info, ren)
		}
		if x.Max != nil {
			r.Max = renameIdents(x.Max, info, ren)
		}
		return r
	case *ast.SelectorExpr:
		return &ast.SelectorExpr{X: renameIdents(x.X, info, ren), Sel: &ast.Ident{Name: x.Sel.Name}}
	case *ast.BinaryExpr:
		return &ast.BinaryExpr{X: renameIdents(x.X, info, ren), Op: x.Op, Y: renameIdents(x.Y, info, ren)}
	case *ast.UnaryExpr:
		return &ast.UnaryExpr{Op: x.Op, X: renameIdents(x.X, info, ren)}
	case *ast.ParenExpr:
		return &ast.ParenExpr{X: renameIdents(x.X, info, ren)}
	case *ast.StarExpr:
		return &ast.StarExpr{X: renameIdents(x.X, info, ren)}
	case *ast.CallExpr:
		r := &ast.CallExpr{Fun: renameIdents(x.Fun, info, ren)}
		for _, a := range x.Args {
			r.Args = append(r.Args, renameIdents(a, info, ren))
		}
		return r
	case *ast.BasicLit:
		return &ast.BasicLit{Kind: x.Kind, Value: x.Value}
	case *ast.ArrayType:
		return &ast.ArrayType{Len: x.Len, Elt: x.Elt}
	}
	return e
}

func (c *Ctx) perConnReach() map[*ssa.Function]bool {
	reach := c.reach(c.perConnRoots())
	// provisioning-time code reachable only through shared helpers is still included (harmless)
	return reach
}

func c04Bounds(c *Ctx, r *Report) {
	r.rule("C04.R1", "every index/slice operation in per-connection code is proven in range by the bounds prover or listed with a reason in specs/audited_bounds.json", 250)
	r.rule("C04.R2", "every make with a non-constant size in per-connection code has a proven constant upper bound <= 66560 bytes/elements, or is audited", 8)
	r.rule("C04.R4", "every division, modulo and rand.Intn with a non-constant operand in per-connection code has that operand proven >= 1, or is audited", 3)
	audited, err := loadAudited()
	if err != nil {
		r.bad("C04.R1", "specs", "audited table", "-", "audited table unreadable: "+err.Error())
		return
	}
	usedAudit := map[string]bool{}
	reach := c.perConnReach()
	proven, aud, evald := 0, 0, 0
	for _, fn := range sortedFuncs(reach) {
		if len(fn.Blocks) == 0 {
			continue
		}
		name := fname(fn)
		p := newProver(c, fn)
		ord := map[string]int{}
		report := func(rule string, in ssa.Instruction, what string, ok bool, obligation string) {
			expr := c.exprAt(fn, in.Pos())
			if expr == "" {
				expr = what
			}
			ord[expr]++
			k := expr
			if ord[expr] > 1 {
				k = fmt.Sprintf("%s #%d", expr, ord[expr])
			}
			if ok {
				proven++
				r.ok(rule, name, k, c.ipos(in), "proven: "+obligation)
				return
			}
			if bs := boundsSeen[in]; bs != nil && bs.oob > 0 {
				r.bad(rule, name, k, c.ipos(in), fmt.Sprintf("out of range in %d of %d concrete evaluations of this site in the scenario tables (see C01.R3/R4, C02.R7, C05.R5, C04.R7, C09.R7, C17.R1)", bs.oob, bs.oob+bs.ok))
				return
			} else if bs != nil && bs.ok > 0 {
				evald++
				r.ok(rule, name, k, c.ipos(in), fmt.Sprintf("decided by path evaluation: in range in all %d concrete evaluations of this site over the scenario tables (orderings of lengths/capacities/cursors) of C01.R3/R4, C02.R7, C05.R5, C04.R7, C09.R7, C17.R1", bs.ok))
				return
			}
			akey := name + "|" + siteKey(in)
			for _, h := range c.homeChain(fn) {
				if _, isAud := audited[fname(h)+"|"+siteKey(in)]; isAud {
					akey = fname(h) + "|" + siteKey(in)
					break
				}
			}
			if os.Getenv("L4AUDITKEYS") != "" && !ok {
				fmt.Printf("AUDITKEY\t%s\t%s\t%s\n", name+"|"+expr, name, siteKey(in))
			}
			if why, isAud := audited[akey]; isAud {
				aud++
				usedAudit[akey] = true
				r.ok(rule, name, k, c.ipos(in), "audited: "+why)
				return
			}
			// a helper shared by several audited sites: the operand is a parameter, and at every call the argument is
			// the very operand the caller's audited entry is about
			if keys, why := auditedThroughCallers(c, fn, in, audited); len(keys) > 0 {
				aud++
				for _, ak := range keys {
					usedAudit[ak] = true
				}
				r.ok(rule, name, k, c.ipos(in), fmt.Sprintf("audited at all %d call sites of this helper: %s", len(keys), why))
				return
			}
			r.bad(rule, name, k, c.ipos(in), "not proven and not audited: "+obligation+" - a remote input reaching this site out of range panics the connection goroutine and with it the whole server (or: allocates without bound)")
		}
		for _, b := range fn.Blocks {
			for _, in := range b.Instrs {
				switch x := in.(type) {
				case *ssa.IndexAddr:
					p.checkIndex(b, x.X, x.Index, in, report)
				case *ssa.Index:
					p.checkIndex(b, x.X, x.Index, in, report)
				case *ssa.Slice:
					lenX := p.lenOf(x.X)
					okAll := true
					desc := ""
					lo := constLin(0)
					if x.Low != nil {
						lo = p.lin(x.Low)
						if !p.entails(b, negLin(lo), 0) { // lo >= 0
							okAll = false
						}
					}
					limit := lenX
					// capacity of a fresh make with explicit cap
					if ms, ok := x.X.(*ssa.MakeSlice); ok {
						limit = p.lin(ms.Cap)
					}
					if x.High != nil {
						hi := p.lin(x.High)
						d1 := addLin(lo, negLin(hi)) // lo - hi <= 0
						d2 := addLin(hi, negLin(limit))
						if !(d1.ok && p.entails(b, d1, 0) && d2.ok && p.entails(b, d2, 0)) {
							okAll = false
						}
						desc = "0 <= low <= high <= len"
					} else {
						d := addLin(lo, negLin(lenX))
						if !(d.ok && p.entails(b, d, 0)) {
							okAll = false
						}
						desc = "0 <= low <= len"
					}
					if x.Low == nil && x.High == nil {
						okAll = true
					}
					if dbg := os.Getenv("L4DEBUG"); dbg != "" && strings.Contains(name, dbg) {
						hi := lin{}
						if x.High != nil {
							hi = p.lin(x.High)
						}
						fmt.Println("DBG slice", c.exprAt(fn, in.Pos()), "lo", lo, "hi", hi, "limit", limit, "->", okAll)
						if os.Getenv("L4FACTS") != "" {
							for _, f := range append(append([]dfact{}, p.global...), p.edgeFacts(b)...) {
								fmt.Printf("   fact %s - %s <= %d (%s)\n", f.x, f.y, f.c, f.why)
							}
						}
					}
					report("C04.R1", in, "slice", okAll, desc)
				case *ssa.MakeSlice:
					// what is allocated is the capacity (make([]T, 0, n) allocates n elements); the capacity is the
					// length where none is given
					szV := x.Cap
					if szV == nil {
						szV = x.Len
					}
					if _, isC := constInt(szV); isC {
						continue
					}
					sz := p.lin(szV)
					// the length of an object that already exists in memory (plus a small constant) is not a
					// number a peer can choose beyond what it has already made the process hold
					existing := sz.ok && sz.neg == "" && strings.HasPrefix(string(sz.pos), "len(") && sz.c >= 0 && sz.c <= 4096
					if !existing {
						// a sum of lengths of existing objects and small constants, possibly divided by a constant >= 1
						if k, ok := lenSumBound(szV, 0); ok && k <= 4096 {
							existing = true
							sz.ok = true
						}
					}
					report("C04.R2", in, "make", sz.ok && (existing || p.entails(b, sz, 66560)), "size <= 66560 (or the length of an existing object)")
				case *ssa.BinOp:
					if x.Op != token.QUO && x.Op != token.REM {
						continue
					}
					if tb, ok := x.Type().Underlying().(*types.Basic); !ok || tb.Info()&types.IsInteger == 0 {
						continue
					}
					if cv, isC := constInt(x.Y); isC && cv != 0 {
						continue
					}
					d := p.lin(x.Y)
					report("C04.R4", in, "div", d.ok && p.entails(b, negLin(d), -1), "divisor >= 1")
				case *ssa.Call:
					if id := calleeID(x); id == "math/rand.Intn" || id == "math/rand/v2.IntN" {
						d := p.lin(x.Call.Args[0])
						report("C04.R4", in, "Intn", d.ok && p.entails(b, negLin(d), -1), "argument >= 1")
					}
					// encoding/binary's fixed-width accessors index their argument without a test of their own
					if buf, n := byteOrderNeed(x); buf != nil {
						l := p.lenOf(buf)
						ok := l.ok && p.entails(b, negLin(l), -n)
						if w, isW := sliceWidthConst(buf); !ok && isW && w >= n {
							ok = true // x[i:i+w]: where that slice operation (an obligation of its own) does not panic, the result has w bytes
						}
						report("C04.R1", in, "byteorder", ok, fmt.Sprintf("len(argument) >= %d", n))
					}
				}
			}
		}
	}
	var stale []string
	for k := range audited {
		if !usedAudit[k] {
			stale = append(stale, k)
		}
	}
	sort.Strings(stale)
	if len(stale) > 0 {
		r.Notes = append(r.Notes, fmt.Sprintf("%d audited entries are not needed on this tree (proven or gone): %s", len(stale), strings.Join(stale, "; ")))
	}
	r.Extras["bounds_proven"] = proven
	r.Extras["bounds_audited"] = aud
	r.Extras["bounds_by_path_evaluation"] = evald
	r.Extras["per_connection_functions"] = len(reach)
}

func (p *prover) checkIndex(b *ssa.BasicBlock, x, idx ssa.Value, in ssa.Instruction, report func(rule string, in ssa.Instruction, what string, ok bool, obligation string)) {
	if os.Getenv("L4DEBUG") != "" && strings.Contains(fname(p.fn), os.Getenv("L4DEBUG")) {
		i, l := p.lin(idx), p.lenOf(x)
		fmt.Println("DBG index", fname(p.fn), idx.Name(), "lin", i, "len", l)
		for _, f := range append(append([]dfact{}, p.global...), p.edgeFacts(b)...) {
			fmt.Printf("   fact %s - %s <= %d (%s)\n", f.x, f.y, f.c, f.why)
		}
	}
	// maps are not bounds-checked
	if _, isMap := x.Type().Underlying().(*types.Map); isMap {
		return
	}
	i := p.lin(idx)
	l := p.lenOf(x)
	ok := i.ok && p.entails(b, negLin(i), 0) // i >= 0
	d := addLin(i, negLin(l))                // i - len <= -1
	ok = ok && d.ok && p.entails(b, d, -1)
	report("C04.R1", in, "index", ok, "0 <= index < len")
}

// ---- R3 dynamic type agreement ----

func c04R3(c *Ctx, r *Report, rule string) {
	r.rule(rule, "for every unchecked type assertion x.(T) on a value obtained from GetVar(key) / Context.Value(key) / Replacer.Get(key) with a constant key: every producer (SetVar / context.WithValue / Replacer.Set) for that key in the module stores a value of type T (or implementing T), and there is at least one producer", 10)
	type prod struct {
		t   types.Type
		pos string
	}
	producers := map[string][]prod{}
	keyOf := func(v ssa.Value) string {
		if s, ok := constString(v); ok {
			return "str:" + s
		}
		for _, o := range origins(v, sliceOpts{}) {
			if o.Kind == "global" {
				// a key variable with a constant string initialiser stands for that string
				i := strings.LastIndex(o.Desc, ".")
				if s, ok := varInitString(c, o.Desc[:i], o.Desc[i+1:]).(string); ok {
					return "str:" + s
				}
				return "var:" + o.Desc
			}
			if o.Kind == "const" {
				if cv, ok := o.V.(*ssa.Const); ok && cv.Value != nil && cv.Value.Kind() == constant.String {
					return "str:" + constant.StringVal(cv.Value)
				}
				return "const:" + o.Desc
			}
		}
		return ""
	}
	valType := func(v ssa.Value) types.Type {
		if mi, ok := v.(*ssa.MakeInterface); ok {
			return mi.X.Type()
		}
		if ci, ok := v.(*ssa.ChangeInterface); ok {
			return ci.X.Type() // a value of a narrower interface type stored as `any`: what it holds implements that interface
		}
		return v.Type()
	}
	for _, fn := range c.Funcs {
		for _, ci := range callsIn(fn) {
			id := calleeID(ci)
			args := ci.Common().Args
			switch {
			case id == "layer4.(*Connection).SetVar" && len(args) == 3:
				if k := keyOf(args[1]); k != "" {
					producers["vars|"+k] = append(producers["vars|"+k], prod{valType(args[2]), c.ipos(ci)})
				}
			case id == "context.WithValue" && len(args) == 3:
				if k := keyOf(args[1]); k != "" {
					producers["ctx|"+k] = append(producers["ctx|"+k], prod{valType(args[2]), c.ipos(ci)})
				}
			case strings.HasSuffix(id, "caddy/v2.Replacer).Set") && len(args) == 3:
				if k := keyOf(args[1]); k != "" {
					producers["repl|"+k] = append(producers["repl|"+k], prod{valType(args[2]), c.ipos(ci)})
				}
			}
		}
	}
	reach := c.perConnReach()
	for _, fn := range sortedFuncs(reach) {
		n := 0
		for _, b := range fn.Blocks {
			for _, in := range b.Instrs {
				ta, ok := in.(*ssa.TypeAssert)
				if !ok || ta.CommaOk {
					continue
				}
				call, ok := ta.X.(*ssa.Call)
				if !ok {
					continue
				}
				id := calleeID(call)
				space, key := "", ""
				switch {
				case id == "layer4.(*Connection).GetVar":
					space, key = "vars", keyOf(call.Call.Args[1])
				case call.Call.IsInvoke() && call.Call.Method.Name() == "Value" && strings.Contains(typeStr(call.Call.Value.Type()), "context.Context"):
					space, key = "ctx", keyOf(call.Call.Args[0])
				case strings.HasSuffix(id, "caddy/v2.Replacer).Get"):
					space, key = "repl", keyOf(call.Call.Args[1])
				default:
					continue
				}
				n++
				k := fmt.Sprintf("%s[%s].(%s)#%d", space, key, typeStr(ta.AssertedType), n)
				if key == "" {
					r.bad(rule, fname(fn), k, c.ipos(ta), "unchecked type assertion on a value fetched under a non-constant key")
					continue
				}
				ps := producers[space+"|"+key]
				// caddy core's own replacer key is produced by caddy, not the module
				if len(ps) == 0 && space == "ctx" && strings.Contains(key, "caddy/v2.ReplacerCtxKey") {
					r.ok(rule, fname(fn), k, c.ipos(ta), "key produced by caddy core (trusted)")
					continue
				}
				var bad []string
				for _, pr := range ps {
					okT := types.Identical(pr.t, ta.AssertedType)
					if iface, isI := ta.AssertedType.Underlying().(*types.Interface); isI && types.Implements(pr.t, iface) {
						okT = true
					}
					if !okT {
						bad = append(bad, typeStr(pr.t)+" at "+pr.pos)
					}
				}
				r.check(len(ps) > 0 && len(bad) == 0, rule, fname(fn), k, c.ipos(ta), fmt.Sprintf("%d producer(s), all of the asserted type", len(ps)), fmt.Sprintf("the value is asserted to be %s without check, but producers for this key store %v (%d producers): the assertion panics in the connection goroutine", typeStr(ta.AssertedType), bad, len(ps)))
			}
		}
	}

	// ---- R8: every other unchecked type assertion ----
	rule8 := "C04.R8"
	r.rule(rule8, "every other unchecked type assertion x.(T) in per-connection code is justified: x is (a phi of) values boxed from T / keyed values whose producers store T / sync.Pool.Get of a pool whose New function and every Put store T; or the path evaluation of the function shows that x holds T on every path reaching the assertion", 3)
	isKeyed := func(v ssa.Value) (space, key string, ok bool) {
		if ex, isEx := v.(*ssa.Extract); isEx && ex.Index == 0 {
			v = ex.Tuple
		}
		call, isCall := v.(*ssa.Call)
		if !isCall {
			return "", "", false
		}
		id := calleeID(call)
		switch {
		case id == "layer4.(*Connection).GetVar":
			return "vars", keyOf(call.Call.Args[1]), true
		case call.Call.IsInvoke() && call.Call.Method.Name() == "Value" && strings.Contains(typeStr(call.Call.Value.Type()), "context.Context"):
			return "ctx", keyOf(call.Call.Args[0]), true
		case strings.HasSuffix(id, "caddy/v2.Replacer).Get"):
			return "repl", keyOf(call.Call.Args[1]), true
		}
		return "", "", false
	}
	typeOK := func(t, asserted types.Type) bool {
		if types.Identical(t, asserted) {
			return true
		}
		if iface, isI := asserted.Underlying().(*types.Interface); isI && types.Implements(t, iface) {
			return true
		}
		return false
	}
	poolProducers := func(g *ssa.Global, asserted types.Type) (int, []string) {
		n := 0
		var bad []string
		// Put sites
		for _, fn := range c.Funcs {
			for _, ci := range callsIn(fn) {
				kind, gg, put := poolOp(ci)
				if kind != "put" || gg != g {
					continue
				}
				if calleeID(ci) != "(*sync.Pool).Put" && poolGetter(fn) == nil {
					if _, idx := poolPutter(ci.Common().StaticCallee()); idx >= 0 {
						// a call of a putter wrapper: judged by the type of what is handed to it
					}
				}
				n++
				if t := valType(put); !typeOK(t, asserted) {
					bad = append(bad, "Put of "+typeStr(t)+" at "+c.ipos(ci))
				}
			}
		}
		// New function: the closure stored into the pool's New field by the package initialiser
		if ini := g.Pkg.Func("init"); ini != nil {
			for _, b := range ini.Blocks {
				for _, in := range b.Instrs {
					st, ok := in.(*ssa.Store)
					if !ok {
						continue
					}
					fa, ok := st.Addr.(*ssa.FieldAddr)
					if !ok || fa.X != ssa.Value(g) {
						continue
					}
					var nf *ssa.Function
					switch v := st.Val.(type) {
					case *ssa.Function:
						nf = v
					case *ssa.MakeClosure:
						nf, _ = v.Fn.(*ssa.Function)
					}
					if nf == nil {
						bad = append(bad, "New is not a function literal")
						continue
					}
					for _, rv := range returnsOf(nf) {
						n++
						if len(rv.Results) != 1 || !typeOK(valType(rv.Results[0]), asserted) {
							bad = append(bad, "New returns "+typeStr(valType(rv.Results[0]))+" at "+c.ipos(rv))
						}
					}
				}
			}
		}
		return n, bad
	}
	var justify func(v ssa.Value, asserted types.Type, seen map[ssa.Value]bool) (handled bool, bad []string, how string)
	justify = func(v ssa.Value, asserted types.Type, seen map[ssa.Value]bool) (bool, []string, string) {
		if seen[v] {
			return true, nil, ""
		}
		seen[v] = true
		switch x := v.(type) {
		case *ssa.MakeInterface:
			if typeOK(x.X.Type(), asserted) {
				return true, nil, "boxed " + typeStr(x.X.Type())
			}
			return true, []string{"boxed from " + typeStr(x.X.Type())}, ""
		case *ssa.Phi:
			var bad []string
			var hows []string
			for _, e := range x.Edges {
				h, b, how := justify(e, asserted, seen)
				if !h {
					return false, nil, ""
				}
				bad = append(bad, b...)
				if how != "" {
					hows = append(hows, how)
				}
			}
			return true, bad, "phi{" + strings.Join(hows, "; ") + "}"
		case *ssa.Call:
			if kind, g, _ := poolOp(x); kind == "get" {
				if g != nil {
					n, bad := poolProducers(g, asserted)
					if n < 2 {
						bad = append(bad, "no New/Put producers found for the pool")
					}
					return true, bad, fmt.Sprintf("pool %s: %d New/Put producers of the asserted type", globalName(g), n)
				}
				return false, nil, ""
			}
		}
		if space, key, ok := isKeyed(v); ok {
			if key == "" {
				return true, []string{"non-constant key"}, ""
			}
			ps := producers[space+"|"+key]
			var bad []string
			for _, pr := range ps {
				if !typeOK(pr.t, asserted) {
					bad = append(bad, "producer of "+typeStr(pr.t)+" at "+pr.pos)
				}
			}
			if len(ps) == 0 {
				bad = append(bad, "no producer for "+space+"["+key+"]")
			}
			return true, bad, fmt.Sprintf("%s[%s]: %d producer(s) of the asserted type", space, key, len(ps))
		}
		return false, nil, ""
	}
	for _, fn := range sortedFuncs(reach) {
		n := 0
		var unhandled []*ssa.TypeAssert
		for _, b := range fn.Blocks {
			for _, in := range b.Instrs {
				ta, ok := in.(*ssa.TypeAssert)
				if !ok || ta.CommaOk {
					continue
				}
				if _, isCall := ta.X.(*ssa.Call); isCall {
					if _, _, keyed := isKeyed(ta.X); keyed {
						continue // R3
					}
				}
				n++
				k := fmt.Sprintf("%s.(%s)#%d", ta.X.Name(), typeStr(ta.AssertedType), n)
				k = fmt.Sprintf("(%s)#%d", typeStr(ta.AssertedType), n)
				handled, bad, how := justify(ta.X, ta.AssertedType, map[ssa.Value]bool{})
				if !handled {
					unhandled = append(unhandled, ta)
					continue
				}
				r.check(len(bad) == 0, rule8, fname(fn), k, c.ipos(ta), how, fmt.Sprintf("the value is asserted to be %s without check, but: %s - the assertion panics in the connection goroutine", typeStr(ta.AssertedType), strings.Join(bad, "; ")))
			}
		}
		if len(unhandled) == 0 {
			continue
		}
		// path evaluation
		sc := assertScenarios[fname(fn)]
		k := fmt.Sprintf("%d assertion(s) by path evaluation", len(unhandled))
		evalFn := fn
		if sc == nil {
			// a helper of a function that has a scenario: that scenario, with the helper evaluated in place
			sites, _ := c.callSitesOf(fn)
			for _, site := range sites {
				caller := site.Parent()
				if base := assertScenarios[fname(caller)]; base != nil {
					helper := fn
					sc = func() *Scenario {
						s := base()
						orig := s.Inline
						s.Inline = func(f *ssa.Function) bool { return f == helper || (orig != nil && orig(f)) }
						return s
					}
					evalFn = caller
					break
				}
			}
		}
		if sc == nil {
			r.bad(rule8, fname(fn), k, c.ipos(unhandled[0]), "unchecked type assertion on a value of unknown dynamic type and no evaluation scenario for this function")
			continue
		}
		paths, err := evalPaths(evalFn, sc())
		if err != nil || len(paths) == 0 {
			r.bad(rule8, fname(fn), k, c.ipos(unhandled[0]), fmt.Sprintf("undecided: %v", err))
			continue
		}
		var problems []string
		oks := 0
		for _, p := range paths {
			if p.Outcome == "cutoff" {
				problems = append(problems, "exploration bound reached")
			}
			for _, e := range p.Trace {
				switch e.Kind {
				case "panic":
					problems = append(problems, "panic: "+e.What+": "+strings.Join(e.Args, " ")+" after "+altNotes(p))
				case "assert-unknown":
					problems = append(problems, "assertion to "+e.What+" on a value of unknown dynamic type ("+strings.Join(e.Args, " ")+")")
				case "assert-ok":
					oks++
				}
			}
		}
		if oks == 0 {
			problems = append(problems, "no path reaches the assertion")
		}
		r.check(len(problems) == 0, rule8, fname(fn), k, c.ipos(unhandled[0]), fmt.Sprintf("%d paths; the asserted value holds the asserted type on all %d paths that reach the assertion", len(paths), oks), strings.Join(dedup(problems), "; "))
	}
}

func altNotes(p Path) string {
	var s []string
	for _, e := range p.Trace {
		if e.Note != "" {
			s = append(s, e.Note)
		}
	}
	if len(s) > 14 {
		s = append(s[:14], "...")
	}
	return "[" + strings.Join(s, ",") + "]"
}

// assertScenarios: evaluation scenarios for functions with an unchecked assertion whose justification is a path property.
var assertScenarios = map[string]func() *Scenario{
	"modules/l4http.(*MatchHTTP).handleHttp2WithPriorKnowledge": func() *Scenario {
		const hf = "*golang.org/x/net/http2.HeadersFrame"
		return &Scenario{
			Name:     "http2 frames",
			MaxVisit: 14,
			MaxPaths: 20000,
			// the package's own plain helpers (a frame-reading loop, say) are evaluated in place
			Inline: func(f *ssa.Function) bool {
				return f.Pkg != nil && short(f.Pkg.Pkg.Path()) == "modules/l4http" && f.Signature.Recv() == nil && f.Parent() == nil && len(f.Blocks) > 0
			},
			NoDefaultInline: true,
			Alts: func(callee string, args []SV, ev *symEval, st *symState) []CallAlt {
				if strings.HasSuffix(callee, "http2.Framer).ReadFrame") {
					id := ev.fresh("frame")
					h := SV{K: "ref", Known: true, Desc: id + ":headers", Dyn: hf}
					o := SV{K: "ref", Known: true, Desc: id + ":other", Dyn: "*golang.org/x/net/http2.SettingsFrame"}
					return []CallAlt{
						{Ret: SV{K: "tuple", Desc: "rf", Elems: []SV{h, symNil()}}, Note: "headers"},
						{Ret: SV{K: "tuple", Desc: "rf", Elems: []SV{o, symNil()}}, Note: "other"},
						{Ret: SV{K: "tuple", Desc: "rf", Elems: []SV{symNil(), {K: "ref", Known: true, Desc: "readErr"}}}, Note: "err"},
					}
				}
				return nil
			},
			Call: func(callee string, args []SV, ev *symEval, st *symState) (SV, bool) {
				switch {
				case callee == "invoke golang.org/x/net/http2.Frame.Header":
					// library contract: a frame's header type is FrameHeaders (1) exactly for *HeadersFrame values
					d := args[0].Desc + ".Header()"
					t := int64(4)
					if args[0].Dyn == hf {
						t = 1
					}
					st.heap[d+".Type"] = symInt(t)
					return SV{K: "opaque", Desc: d}, true
				case strings.HasSuffix(callee, "hpack.Decoder).DecodeFull"):
					z := symInt(0)
					return SV{K: "tuple", Desc: "df", Elems: []SV{{K: "slice", Desc: "hdrs", Len: &z, Cap: &z}, {K: "ref", Known: true, Desc: "decodeErr"}}}, true
				case callee == "io.ReadFull":
					return SV{K: "tuple", Desc: "rd", Elems: []SV{{K: "int", Desc: "n"}, symNil()}}, true
				case callee == "fmt.Errorf" || callee == "errors.New":
					return SV{K: "ref", Known: true, Desc: ev.fresh("err")}, true // never nil
				}
				return SV{}, false
			},
		}
	},
}

func c04R5(c *Ctx, r *Report, rule string) {
	r.rule(rule, "no explicit panic(...), Must*, log.Fatal*/log.Panic* or os.Exit is reachable from per-connection entry points inside the module (compiler-generated select panics aside)", 1)
	reach := c.perConnReach()
	bad := 0
	for _, fn := range sortedFuncs(reach) {
		for _, b := range fn.Blocks {
			for _, in := range b.Instrs {
				switch x := in.(type) {
				case *ssa.Panic:
					if mi, ok := x.X.(*ssa.MakeInterface); ok {
						if s, ok := constString(mi.X); ok && strings.Contains(s, "blocking select matched no case") {
							continue
						}
					}
					bad++
					r.bad(rule, fname(fn), "panic", c.ipos(x), "explicit panic reachable from a connection goroutine: no recover exists there, the whole server process dies")
				case ssa.CallInstruction:
					id := calleeID(x)
					short := id[strings.LastIndex(id, ".")+1:]
					if strings.HasPrefix(id, "log.Fatal") || strings.HasPrefix(id, "log.Panic") || id == "os.Exit" || (strings.HasPrefix(short, "Must") && !strings.HasPrefix(id, "regexp.")) {
						bad++
						r.bad(rule, fname(fn), "calls "+id, c.ipos(x), "process-terminating call reachable from a connection goroutine")
					}
				}
			}
		}
	}
	if bad == 0 {
		r.ok(rule, "module", "no explicit panic", "-", fmt.Sprintf("%d per-connection functions scanned", len(reach)))
	}
}

// c04Postgres: bounded exhaustive path evaluation of the postgres matcher's parsing with concrete
// lengths and symbolic bytes: no index or slice operation may go out of range.
func c04Postgres(c *Ctx, r *Report, rule string) {
	r.rule(rule, "postgres matcher, path-evaluated for every declared message length 0..16 plus the buffer limit and above, with symbolic content (every placement of string terminators): no index/slice goes out of range, lengths outside [8, MaxMatchingBytes] are answered without allocating, and the allocation equals the declared length minus 4", 20)
	fnName := "modules/l4postgres.(*MatchPostgres).Match"
	fn := c.Fn(fnName)
	if fn == nil {
		r.bad(rule, fnName, "exists", "-", "function not found")
		return
	}
	lens := []int64{0, 1, 2, 3, 4, 5, 6, 7, 8, 9, 10, 11, 12, 13, 14, 15, 16, 8192, 8193, 1195725856, 4294967295}
	for _, L := range lens {
		sc := &Scenario{Name: fmt.Sprintf("declared-length=%d", L), MaxVisit: 24, MaxPaths: 30000,
			Params: map[string]SV{"recv": symRef("m", false), "p0": symRef("cx", false)},
			Inline: func(f *ssa.Function) bool {
				return f.Pkg != nil && short(f.Pkg.Pkg.Path()) == "modules/l4postgres" && f.Name() != "Match"
			},
		}
		sc.Call = func(callee string, args []SV, ev *symEval, st *symState) (SV, bool) {
			switch {
			case callee == "io.ReadFull":
				if args[1].Len != nil && args[1].Len.Known && args[1].Len.N > 64 {
					// a large message is not fully buffered yet: need more
					return SV{K: "tuple", Desc: "rd", Elems: []SV{{K: "int", Desc: "n"}, {K: "ref", Known: true, Desc: "needMore"}}}, true
				}
				return SV{K: "tuple", Desc: "rd", Elems: []SV{{K: "int", Desc: "n"}, symNil()}}, true
			case strings.HasSuffix(callee, "bigEndian).Uint32"):
				// the first decoding is the length field; later ones decode message content
				k := 0
				for _, e := range st.trace {
					if e.Kind == "call" && e.What == callee {
						k++
					}
				}
				if k == 0 {
					return symInt(L), true
				}
				return SV{K: "int", Desc: ev.fresh("u32")}, true
			case callee == "errors.New":
				return SV{K: "ref", Known: true, Desc: "err"}, true
			}
			return SV{}, false
		}
		paths, err := evalPaths(fn, sc)
		if err != nil || len(paths) == 0 {
			r.bad(rule, fnName, sc.Name, c.pos(fn.Pos()), fmt.Sprintf("undecided: %v", err))
			continue
		}
		var problems []string
		if os.Getenv("L4DEBUG") == "pg" && L == 12 {
			for _, p := range paths {
				fmt.Println("DBGPG", p.Outcome, p.retDesc(), "|", fmtTrace(p))
			}
		}
		for _, p := range paths {
			if p.Outcome == "cutoff" {
				problems = append(problems, "exploration bound reached")
			}
			for _, e := range p.Trace {
				if e.Kind == "oob" {
					problems = append(problems, "out of range: "+e.Args[0]+" in "+e.In)
				}
				if e.Kind == "panic" {
					problems = append(problems, "panic: "+e.What)
				}
			}
			// allocation
			for k, v := range p.Heap {
				_ = k
				_ = v
			}
		}
		inRange := L >= 8 && L <= 8192
		allocs := 0
		for _, p := range paths {
			for _, e := range p.Trace {
				if e.Kind == "call" && e.What == "io.ReadFull" && strings.HasPrefix(e.Args[1], "make#") {
					if !strings.Contains(e.Args[1], fmt.Sprintf("(%d)", L-4)) && !strings.Contains(e.Args[1], "(4)") {
						problems = append(problems, "reads into a buffer of unexpected size: "+e.Args[1])
					}
					if strings.Contains(e.Args[1], fmt.Sprintf("(%d)", L-4)) && L != 8 {
						allocs++
					}
				}
			}
		}
		if !inRange && allocs > 0 {
			problems = append(problems, fmt.Sprintf("a declared length of %d (outside [8, 8192]) still leads to an allocation of %d bytes", L, L-4))
		}
		r.check(len(problems) == 0, rule, fnName, sc.Name, c.pos(fn.Pos()), fmt.Sprintf("%d paths, all in range", len(paths)), strings.Join(dedup(problems), "; "))
	}
}

// byteOrderNeed: for a call of one of encoding/binary's fixed-width accessors (Uint16/32/64, PutUint16/32/64 of
// BigEndian, LittleEndian or a ByteOrder value) the buffer argument and the number of bytes it must hold.
func byteOrderNeed(x *ssa.Call) (ssa.Value, int64) {
	cm := x.Common()
	name, args := "", cm.Args
	if cm.IsInvoke() {
		if cm.Method.Pkg() == nil || cm.Method.Pkg().Path() != "encoding/binary" {
			return nil, 0
		}
		name = cm.Method.Name()
	} else {
		callee := cm.StaticCallee()
		if callee == nil || callee.Pkg == nil || callee.Pkg.Pkg.Path() != "encoding/binary" || callee.Signature.Recv() == nil || len(args) < 2 {
			return nil, 0
		}
		name, args = callee.Name(), args[1:]
	}
	need := map[string]int64{"Uint16": 2, "Uint32": 4, "Uint64": 8, "PutUint16": 2, "PutUint32": 4, "PutUint64": 8}[name]
	if need == 0 || len(args) == 0 {
		return nil, 0
	}
	if _, isSlice := args[0].Type().Underlying().(*types.Slice); !isSlice {
		return nil, 0
	}
	return args[0], need
}

// sliceWidthConst: v is x[lo : lo+w] with a constant w, lo and the lo of the sum being one value or two loads of one
// field with nothing in between that could write it. If the slice operation succeeds (high >= low rules out a
// wrapped sum) the result has exactly w elements.
func sliceWidthConst(v ssa.Value) (int64, bool) {
	sl, ok := v.(*ssa.Slice)
	if !ok || sl.Low == nil || sl.High == nil || sl.Max != nil {
		return 0, false
	}
	add, ok := sl.High.(*ssa.BinOp)
	if !ok || add.Op != token.ADD {
		return 0, false
	}
	strip := func(v ssa.Value) ssa.Value {
		for {
			cv, ok := v.(*ssa.Convert)
			if !ok {
				return v
			}
			v = cv.X
		}
	}
	w, isC := constInt(add.Y)
	base := add.X
	if !isC {
		w, isC = constInt(add.X)
		base = add.Y
	}
	if !isC || w < 0 {
		return 0, false
	}
	// the sum and the low bound may both be converted from a narrower type only if converted alike
	lo := sl.Low
	if hc, ok := sl.High.(*ssa.Convert); ok {
		_ = hc
		return 0, false
	}
	if lo == base || sameFieldLoad(strip(lo), strip(base)) && typeStr(lo.Type()) == typeStr(base.Type()) {
		return w, true
	}
	return 0, false
}

// sameFieldLoad: two loads of the same field of the same object in one block with no store or call between them.
func sameFieldLoad(a, b ssa.Value) bool {
	la, ok1 := a.(*ssa.UnOp)
	lb, ok2 := b.(*ssa.UnOp)
	if !ok1 || !ok2 || la.Op != token.MUL || lb.Op != token.MUL || la.Block() != lb.Block() {
		return false
	}
	ra, ca := fieldChain(la.X)
	rb, cb := fieldChain(lb.X)
	if ra == nil || ra != rb || ca == "" || ca != cb {
		return false
	}
	i, j := instrIndex(la), instrIndex(lb)
	if i > j {
		i, j = j, i
	}
	for _, in := range la.Block().Instrs[i:j] {
		switch in.(type) {
		case *ssa.Store, ssa.CallInstruction:
			return false
		}
	}
	return true
}

// auditedThroughCallers: the operand of the index/slice operation in is a parameter of the unexported helper fn (never
// used as a value), and for every call of fn the reviewed table has an entry of the calling function (or its home) for
// the same kind of operation on what is passed for that parameter. Returns the entries used and the first reason.
func auditedThroughCallers(c *Ctx, fn *ssa.Function, in ssa.Instruction, audited map[string]string) ([]string, string) {
	if fn.Parent() != nil || token.IsExported(fn.Name()) {
		return nil, ""
	}
	var base ssa.Value
	kind := ""
	switch x := in.(type) {
	case *ssa.Slice:
		base, kind = x.X, "slice "
	case *ssa.IndexAddr:
		base, kind = x.X, "index "
	case *ssa.Index:
		base, kind = x.X, "index "
	default:
		return nil, ""
	}
	for {
		switch y := base.(type) {
		case *ssa.ChangeType:
			base = y.X
			continue
		case *ssa.Slice:
			base = y.X
			continue
		}
		break
	}
	par, ok := base.(*ssa.Parameter)
	if !ok {
		return nil, ""
	}
	idx := paramIndex(fn, par)
	sites, escapes := c.callSitesOf(fn)
	if idx < 0 || escapes || len(sites) == 0 {
		return nil, ""
	}
	var keys []string
	why := ""
	for _, cs := range sites {
		if idx >= len(cs.Common().Args) {
			return nil, ""
		}
		site := kind + baseDesc(cs.Common().Args[idx], 0)
		found := ""
		for _, h := range c.homeChain(cs.Parent()) {
			if w, isAud := audited[fname(h)+"|"+site]; isAud {
				found = fname(h) + "|" + site
				if why == "" {
					why = w
				}
				break
			}
		}
		if found == "" {
			return nil, ""
		}
		keys = append(keys, found)
	}
	return keys, why
}

// lenSumBound: v is built from len(...) of existing objects, non-negative constants, additions, subtractions of a
// constant that provably leave it non-negative, divisions by a constant >= 1, phis of such values and calls of
// functions of the module that return such a value of their arguments only; then
// 0 <= v <= (sum of the lengths of objects already in memory) + the constant returned.
func lenSumBound(v ssa.Value, depth int) (int64, bool) {
	up, _, ok := lenSumBounds(v, depth, nil, map[ssa.Value]bool{})
	return up, ok
}

type lenBnd struct{ up, lo int64 }

// lenSumBounds returns the constant part of the upper bound and a constant lower bound of v; env gives the bounds of
// the parameters when a callee's result is evaluated for one call.
func lenSumBounds(v ssa.Value, depth int, env map[*ssa.Parameter]lenBnd, onPath map[ssa.Value]bool) (up, lo int64, ok bool) {
	if depth > 12 || onPath[v] {
		return 0, 0, false
	}
	onPath[v] = true
	defer delete(onPath, v)
	if k, isC := constInt(v); isC {
		return k, k, k >= 0
	}
	switch x := v.(type) {
	case *ssa.Parameter:
		if b, has := env[x]; has {
			return b.up, b.lo, true
		}
	case *ssa.Phi:
		first := true
		for _, e := range x.Edges {
			u, l, ok1 := lenSumBounds(e, depth+1, env, onPath)
			if !ok1 {
				return 0, 0, false
			}
			if first || u > up {
				up = u
			}
			if first || l < lo {
				lo = l
			}
			first = false
		}
		return up, lo, !first
	case *ssa.Call:
		if b, isB := x.Call.Value.(*ssa.Builtin); isB && b.Name() == "len" {
			return 0, 0, true
		}
		g := x.Call.StaticCallee()
		if g == nil || g.Pkg == nil || !strings.HasPrefix(g.Pkg.Pkg.Path(), modPath) || len(g.Blocks) == 0 || g.Signature.Results().Len() != 1 || len(g.Params) != len(x.Call.Args) {
			return 0, 0, false
		}
		sub := map[*ssa.Parameter]lenBnd{}
		for i, pa := range g.Params {
			u, l, ok1 := lenSumBounds(x.Call.Args[i], depth+1, env, onPath)
			if ok1 {
				sub[pa] = lenBnd{u, l}
			}
		}
		first := true
		for _, rt := range returnsOf(g) {
			if len(rt.Results) != 1 {
				return 0, 0, false
			}
			u, l, ok1 := lenSumBounds(rt.Results[0], depth+1, sub, onPath)
			if !ok1 {
				return 0, 0, false
			}
			if first || u > up {
				up = u
			}
			if first || l < lo {
				lo = l
			}
			first = false
		}
		return up, lo, !first
	case *ssa.BinOp:
		switch x.Op {
		case token.ADD:
			u1, l1, ok1 := lenSumBounds(x.X, depth+1, env, onPath)
			u2, l2, ok2 := lenSumBounds(x.Y, depth+1, env, onPath)
			return u1 + u2, l1 + l2, ok1 && ok2
		case token.SUB:
			if d, isC := constInt(x.Y); isC && d >= 0 {
				u, l, ok1 := lenSumBounds(x.X, depth+1, env, onPath)
				if ok1 && l-d >= 0 {
					return u, l - d, true
				}
			}
		case token.QUO:
			if d, isC := constInt(x.Y); isC && d >= 1 {
				u, l, ok1 := lenSumBounds(x.X, depth+1, env, onPath)
				return u, l / d, ok1
			}
		}
	}
	return 0, 0, false
}
