package main

import (
	"go/types"
	"sort"
	"strings"

	"golang.org/x/tools/go/ssa"
)

// callees returns the module functions a function may call: static callees, closures it creates
// or references, and for interface invocations every module method implementing the interface
// method (class-hierarchy analysis restricted to module-defined types).
func (c *Ctx) callees(fn *ssa.Function) []*ssa.Function {
	seen := map[*ssa.Function]bool{}
	var out []*ssa.Function
	add := func(f *ssa.Function) {
		if f != nil && f.Synthetic != "" && f.Pkg == nil {
			// bound method values (x.M passed as a function) and thunks: the declared method is what runs
			if obj, ok := f.Object().(*types.Func); ok {
				f = c.Prog.FuncValue(obj)
			}
		}
		if f == nil || seen[f] || f.Pkg == nil || c.SSA[f.Pkg.Pkg.Path()] == nil {
			return
		}
		seen[f] = true
		out = append(out, f)
	}
	for _, b := range fn.Blocks {
		for _, in := range b.Instrs {
			// function values referenced anywhere (closures, method values)
			var ops []*ssa.Value
			for _, op := range in.Operands(ops) {
				switch v := (*op).(type) {
				case *ssa.Function:
					add(v)
				case *ssa.MakeClosure:
					add(v.Fn.(*ssa.Function))
				}
			}
			if mc, ok := in.(*ssa.MakeClosure); ok {
				add(mc.Fn.(*ssa.Function))
			}
			ci, ok := in.(ssa.CallInstruction)
			if !ok {
				continue
			}
			cc := ci.Common()
			if cc.IsInvoke() {
				for _, f := range c.implsOf(cc.Value.Type(), cc.Method) {
					add(f)
				}
				continue
			}
			if f := cc.StaticCallee(); f != nil {
				if f.Synthetic != "" && f.Pkg == nil {
					// bound/thunk wrappers: find the underlying method
					if obj, ok := f.Object().(*types.Func); ok {
						add(c.Prog.FuncValue(obj))
					}
				}
				add(f)
			}
		}
	}
	return out
}

var implCache = map[string][]*ssa.Function{}

func (c *Ctx) implsOf(ifaceT types.Type, m *types.Func) []*ssa.Function {
	k := typeStr(ifaceT) + "." + m.Name()
	if v, ok := implCache[k]; ok {
		return v
	}
	iface, ok := ifaceT.Underlying().(*types.Interface)
	if !ok {
		return nil
	}
	var out []*ssa.Function
	seen := map[*ssa.Function]bool{}
	for _, p := range c.Pkgs {
		sc := p.Types.Scope()
		for _, n := range sc.Names() {
			tn, ok := sc.Lookup(n).(*types.TypeName)
			if !ok || tn.IsAlias() {
				continue
			}
			if _, isI := tn.Type().Underlying().(*types.Interface); isI {
				continue
			}
			for _, t := range []types.Type{tn.Type(), types.NewPointer(tn.Type())} {
				if !types.Implements(t, iface) {
					continue
				}
				sel := c.Prog.MethodSets.MethodSet(t).Lookup(m.Pkg(), m.Name())
				if sel == nil {
					continue
				}
				fn := c.Prog.MethodValue(sel)
				for fn != nil && fn.Synthetic != "" {
					// promoted-method wrapper: resolve to the declared method
					if obj, ok := fn.Object().(*types.Func); ok {
						f2 := c.Prog.FuncValue(obj)
						if f2 == fn {
							break
						}
						fn = f2
					} else {
						break
					}
				}
				if fn != nil && !seen[fn] && fn.Pkg != nil && c.SSA[fn.Pkg.Pkg.Path()] != nil {
					seen[fn] = true
					out = append(out, fn)
				}
			}
		}
	}
	implCache[k] = out
	return out
}

// reach computes the module functions reachable from roots.
func (c *Ctx) reach(roots []*ssa.Function) map[*ssa.Function]bool {
	seen := map[*ssa.Function]bool{}
	work := append([]*ssa.Function(nil), roots...)
	for len(work) > 0 {
		f := work[len(work)-1]
		work = work[:len(work)-1]
		if f == nil || seen[f] {
			continue
		}
		seen[f] = true
		work = append(work, c.callees(f)...)
	}
	return seen
}

func sortedFuncs(m map[*ssa.Function]bool) []*ssa.Function {
	var out []*ssa.Function
	for f := range m {
		out = append(out, f)
	}
	sort.Slice(out, func(i, j int) bool { return fname(out[i]) < fname(out[j]) })
	return out
}

// matcherRoots returns the Match methods of all module types implementing layer4.ConnMatcher.
func (c *Ctx) matcherRoots() []*ssa.Function {
	cm := c.iface("layer4", "ConnMatcher")
	if cm == nil {
		return nil
	}
	return c.implementors(cm, "Match")
}

// handlerRoots returns the Handle methods of all module types implementing layer4.NextHandler.
func (c *Ctx) handlerRoots() []*ssa.Function {
	nh := c.iface("layer4", "NextHandler")
	if nh == nil {
		return nil
	}
	return c.implementors(nh, "Handle")
}

// perConnRoots: everything that runs once per connection.
func (c *Ctx) perConnRoots() []*ssa.Function {
	var roots []*ssa.Function
	roots = append(roots, c.matcherRoots()...)
	roots = append(roots, c.handlerRoots()...)
	if h := c.iface("layer4", "Handler"); h != nil {
		roots = append(roots, c.implementors(h, "Handle")...)
	}
	if s := c.iface("modules/l4proxy", "Selector"); s != nil {
		roots = append(roots, c.implementors(s, "Select")...)
	}
	for _, n := range []string{"layer4.(*Server).handle", "layer4.(*listener).handle", "layer4.(RouteList).Compile$1", "layer4.wrapHandler$1$1", "layer4.(*Server).servePacket", "layer4.(*listener).loop", "layer4.(*listener).Accept"} {
		if f := c.Fn(n); f != nil {
			roots = append(roots, f)
		}
	}
	// handshake matchers of the tls module
	for _, f := range c.Funcs {
		if f.Name() == "Match" && f.Signature.Recv() != nil && f.Pkg != nil && short(f.Pkg.Pkg.Path()) == "modules/l4tls" {
			roots = append(roots, f)
		}
	}
	return roots
}

// callSitesOf lists the static call sites (call, go, defer) of fn in the module, and whether fn is also used
// as a value somewhere (then not every caller is known).
func (c *Ctx) callSitesOf(fn *ssa.Function) (sites []ssa.CallInstruction, escapes bool) {
	if c.callSites == nil {
		c.callSites = map[*ssa.Function][]ssa.CallInstruction{}
		c.fnEscapes = map[*ssa.Function]bool{}
		for _, g := range c.Funcs {
			for _, b := range g.Blocks {
				for _, in := range b.Instrs {
					if ci, ok := in.(ssa.CallInstruction); ok {
						if cal := ci.Common().StaticCallee(); cal != nil {
							c.callSites[cal] = append(c.callSites[cal], ci)
						}
					}
					var ops []*ssa.Value
					for _, o := range in.Operands(ops) {
						if f, ok := (*o).(*ssa.Function); ok {
							if ci, isCall := in.(ssa.CallInstruction); isCall && ci.Common().Value == ssa.Value(f) {
								continue
							}
							c.fnEscapes[f] = true
						}
					}
				}
			}
		}
	}
	return c.callSites[fn], c.fnEscapes[fn]
}

// paramIndex returns the index of p among fn's parameters (-1 if none).
func paramIndex(fn *ssa.Function, p *ssa.Parameter) int {
	for i, q := range fn.Params {
		if q == p {
			return i
		}
	}
	return -1
}

// reachSync: fn and the module functions it calls synchronously (plain calls, not go/defer), transitively.
func (c *Ctx) reachSync(fn *ssa.Function) map[*ssa.Function]bool {
	out := map[*ssa.Function]bool{}
	var walk func(f *ssa.Function, d int)
	walk = func(f *ssa.Function, d int) {
		if out[f] || d > 4 || len(f.Blocks) == 0 {
			return
		}
		out[f] = true
		for _, b := range f.Blocks {
			for _, in := range b.Instrs {
				if call, ok := in.(*ssa.Call); ok {
					if cal := call.Call.StaticCallee(); cal != nil && cal.Pkg != nil && strings.HasPrefix(cal.Pkg.Pkg.Path(), modPath) {
						walk(cal, d+1)
					}
				}
			}
		}
	}
	walk(fn, 0)
	return out
}
