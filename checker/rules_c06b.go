package main

import (
	"fmt"
	"go/token"
	"go/types"
	"strings"

	"golang.org/x/tools/go/ssa"
)

// c06Masked: a library parser that reads lines through a bufio.Reader (net/http.ReadRequest -> textproto ->
// bufio.ReadLine) does not pass on an error of its reader when the reader had delivered a partial line: the
// partial line is parsed, and a header line cut off at the end of the prefetched bytes is reported as malformed.
// A matcher that hands the connection to such a parser therefore cannot take the parser's error as its answer. The
// HTTP matcher is evaluated with the parser replaced by a summary that behaves that way: whenever the connection
// asked for more data while a parser was reading, the matcher's answer must be the request for more data (or
// "buffer full"), whatever error the parser came up with.
func c06Masked(c *Ctx, r *Report, rule string) {
	r.rule(rule, "parsers that mask read errors (evaluation of MatchHTTP.Match with http.ReadRequest and the HTTP/2 preface parser summarised as: complete | failed after the connection asked for more data - with a malformed-header error or with the connection's error | failed on complete data): whenever the connection asked for more while a parser read it the matcher answers need-more or buffer-full; a parse error on complete data is returned as it is", 1)
	fnName := "modules/l4http.(*MatchHTTP).Match"
	fn := c.Fn(fnName)
	if fn == nil {
		r.bad(rule, fnName, "exists", "-", "function not found")
		return
	}
	needMore := SV{K: "ref", Known: true, Desc: "global:layer4.ErrConsumedAllPrefetchedBytes"}
	for _, full := range []bool{false, true} {
		name := "buffer below the limit"
		n := int64(300)
		if full {
			name = "buffer at the limit"
			n = 16384
			if p := c.ByPath[modPath+"/layer4"]; p != nil {
				if v := constOf(scopeLookup(p.Types, "MaxMatchingBytes")); v > 0 {
					n = v
				}
			}
		}
		forceNeedMore := false
		modelProblem := ""
		sc := &Scenario{Name: name, MaxVisit: 6, MaxPaths: 5000,
			Params: map[string]SV{"recv": symRef("m", false), "p0": symRef("cx", false)},
			Heap:   map[string]SV{"global:layer4.MaxMatchingBytes": symInt(16384)},
		}
		if p := c.ByPath[modPath+"/layer4"]; p != nil {
			if v := constOf(scopeLookup(p.Types, "MaxMatchingBytes")); v > 0 {
				sc.Heap["global:layer4.MaxMatchingBytes"] = symInt(v)
			}
		}
		// reading the reader a parser was given: module wrappers are evaluated, the connection itself asks for more
		var readThrough func(ev *symEval, st *symState, rd SV, depth int)
		readThrough = func(ev *symEval, st *symState, rd SV, depth int) {
			if inner, ok := st.heap[rd.Desc+".inner"]; ok && depth < 4 { // a bufio.Reader made by the scenario
				readThrough(ev, st, inner, depth+1)
				return
			}
			if rd.Desc == "cx" {
				st.trace = append(st.trace, Event{Kind: "call", What: "layer4.(*Connection).Read", Args: []string{"cx", "buf"}, Note: "need more"})
				return
			}
			if rd.DynT == nil {
				modelProblem = "the reader given to the parser is neither the connection nor a value of a known type (" + rd.Desc + ")"
				return
			}
			var rf *ssa.Function
			for _, t := range []types.Type{rd.DynT, types.NewPointer(rd.DynT)} {
				ms := c.Prog.MethodSets.MethodSet(t)
				for i := 0; i < ms.Len(); i++ {
					if ms.At(i).Obj().Name() == "Read" {
						rf = c.Prog.MethodValue(ms.At(i))
					}
				}
				if rf != nil {
					break
				}
			}
			if rf == nil || len(rf.Blocks) == 0 || rf.Pkg == nil || !strings.HasPrefix(rf.Pkg.Pkg.Path(), modPath) {
				modelProblem = "the reader given to the parser (" + rd.Dyn + ") has no Read method in the module"
				return
			}
			l := symInt(64)
			forceNeedMore = true
			outs := ev.call(rf, []SV{rd, {K: "slice", Desc: "parsebuf", Len: &l, Cap: &l}}, nil, st, 2)
			forceNeedMore = false
			if len(outs) != 1 || outs[0].st != st {
				modelProblem = fmt.Sprintf("the reader's Read forked into %d outcomes", len(outs))
			}
		}
		sc.Call = func(callee string, args []SV, ev *symEval, st *symState) (SV, bool) {
			switch {
			case callee == "layer4.(*Connection).GetVar":
				return symNil(), true
			case callee == "layer4.(*Connection).MatchingBytes":
				return symSlice("data", n), true
			case strings.HasSuffix(callee, "(MatchHTTP).isHttp"), strings.HasSuffix(callee, "(*MatchHTTP).isHttp"):
				return symTuple(symBool(false), symBool(true)), true
			case callee == "bufio.NewReaderSize" || callee == "bufio.NewReader":
				id := ev.fresh("bufreader")
				st.heap[id+".inner"] = args[0]
				return symRef(id, false), true
			case callee == "layer4.(*Connection).Read" && forceNeedMore:
				return symTuple(symInt(0), needMore), true
			case strings.HasPrefix(callee, "modules/l4tls.GetConnectionStates"):
				return symSlice("states", 0), true
			case strings.Contains(callee, "caddyhttp.PrepareRequest"):
				return args[0], true
			case strings.Contains(callee, "Replacer"), strings.Contains(callee, "context.Context.Value"), strings.HasSuffix(callee, "NewReplacer"):
				return symRef("repl", false), true
			case callee == "layer4.(*Connection).SetVar":
				return symOpaque("set"), true
			case strings.HasSuffix(callee, "MatcherSets).AnyMatch"):
				return SV{K: "bool", Desc: "anymatch"}, true
			}
			return SV{}, false
		}
		sc.Alts = func(callee string, args []SV, ev *symEval, st *symState) []CallAlt {
			parser := func(errDesc string) []CallAlt {
				rd := args[0]
				for _, a := range args { // the reader among the arguments: the bufio.Reader the scenario made
					if _, isBuf := st.heap[a.Desc+".inner"]; isBuf {
						rd = a
					}
				}
				ok := CallAlt{Ret: symNil(), Note: "complete"}
				if callee == "net/http.ReadRequest" {
					ok.Ret = symTuple(symRef("req", false), symNil())
				}
				mk := func(e SV) SV {
					if callee == "net/http.ReadRequest" {
						return symTuple(symNil(), e)
					}
					return e
				}
				trunc := func(ev *symEval, st *symState) { readThrough(ev, st, rd, 0) }
				alts := []CallAlt{ok,
					{Ret: mk(needMore), Note: "truncated:passed", Effect: trunc},
					{Ret: mk(SV{K: "ref", Known: true, Desc: errDesc}), Note: "bad"},
				}
				if callee == "net/http.ReadRequest" {
					// the line-oriented parser is the one that masks: the frame parser reads with io.ReadFull, which
					// hands its reader's error on
					alts = append(alts, CallAlt{Ret: mk(SV{K: "ref", Known: true, Desc: errDesc}), Note: "truncated:masked", Effect: trunc})
				}
				return alts
			}
			switch {
			case callee == "net/http.ReadRequest":
				return parser("errMalformedHeader")
			case strings.HasSuffix(callee, "(*MatchHTTP).handleHttp2WithPriorKnowledge"):
				return parser("errFrame")
			}
			return nil
		}
		paths, err := evalPaths(fn, sc)
		if err != nil || len(paths) == 0 {
			r.bad(rule, fnName, name, c.pos(fn.Pos()), fmt.Sprintf("undecided: %v", err))
			continue
		}
		var problems []string
		if modelProblem != "" {
			problems = append(problems, "undecided: "+modelProblem)
		}
		truncated, bad := 0, 0
		for _, p := range paths {
			if p.Outcome != "return" || len(p.Ret) != 2 {
				problems = append(problems, "undecided path: "+fmtTrace(p))
				continue
			}
			asked, parseBad := false, ""
			for _, e := range p.Trace {
				if e.Kind != "call" {
					continue
				}
				if e.What == "layer4.(*Connection).Read" && e.Note == "need more" {
					asked = true
				}
				if e.What == "layer4.(*Connection).Read" && e.Note == "" && strings.Contains(fmtTrace(p), "truncated") {
					asked = true
				}
				if e.Note == "bad" {
					parseBad = e.What
				}
			}
			for _, e := range p.Trace {
				if strings.HasPrefix(e.Note, "truncated:") {
					asked = true
				}
			}
			ans := p.Ret[1].Desc
			switch {
			case asked:
				truncated++
				// (at the limit either answer ends matching: the router's next prefetch reports the full buffer itself)
				want := "ErrConsumedAllPrefetchedBytes"
				okAns := strings.Contains(ans, want) || (full && strings.Contains(ans, "ErrMatchingBufferFull"))
				if !(p.Ret[0].Known && !p.Ret[0].B) || !okAns {
					problems = append(problems, fmt.Sprintf("the connection asked for more data while the request was being parsed, but the matcher answers (%s) instead of %s: a request that arrives split at that point is rejected although it matches when delivered whole (%s)", p.retDesc(), want, pathNotes(p)))
				}
			case parseBad != "":
				bad++
				if !(p.Ret[0].Known && !p.Ret[0].B) || !(strings.HasPrefix(ans, "errMalformed") || strings.HasPrefix(ans, "errFrame")) {
					problems = append(problems, fmt.Sprintf("a parse error on complete data is answered with (%s)", p.retDesc()))
				}
			}
		}
		if truncated == 0 || bad == 0 {
			problems = append(problems, fmt.Sprintf("the evaluation did not reach the parsers (truncated %d, bad %d)", truncated, bad))
		}
		r.check(len(problems) == 0, rule, fnName, name, c.pos(fn.Pos()), fmt.Sprintf("%d paths (%d with the connection asking for more during a parse, %d parse errors on complete data)", len(paths), truncated, bad), strings.Join(dedup(problems), "\n"))
	}
}

func pathNotes(p Path) string {
	var s []string
	for _, e := range p.Trace {
		if e.Kind == "call" && e.Note != "" {
			s = append(s, shortCallee(e.What)+"="+e.Note)
		}
	}
	return strings.Join(s, ", ")
}

// c06IsHTTP: the http matcher's look at the request line. isHttp is evaluated on byte strings: every proper prefix
// of a request line (no line feed yet) asks for more, a complete request line is recognised with LF and with CR LF
// endings, a complete first line that is not a request line is refused - and never before the line is complete.
func c06IsHTTP(c *Ctx, r *Report, rule string) {
	r.rule(rule, "http request line (evaluation of isHttp on byte strings): every prefix of a request line that has no line feed yet asks for more data (never a definite no), complete request lines with LF and CR LF endings match, complete other first lines - also those shorter than any request line - do not", 20)
	fnName := "modules/l4http.(MatchHTTP).isHttp"
	fn := c.Fn(fnName)
	if fn == nil {
		r.bad(rule, fnName, "exists", "-", "function not found")
		return
	}
	type tc struct {
		name, data string
		want       string // more / yes / no
	}
	line := "GET /foo/bar?aaa=1 HTTP/1.1\r\n"
	var cases []tc
	for _, k := range []int{0, 1, 5, 9, 10, 11, 16, 24, len(line) - 3, len(line) - 2, len(line) - 1} {
		cases = append(cases, tc{fmt.Sprintf("request line cut after %d bytes", k), line[:k], "more"})
	}
	cases = append(cases,
		tc{"complete request line, CR LF", line, "yes"},
		tc{"complete request line, LF only", "GET /foo/bar?aaa=1 HTTP/1.1\n", "yes"},
		tc{"request line and a header", line + "Host: example.com\r\n\r\n", "yes"},
		tc{"shortest request line", "GET / HTTP/1.1\r\n", "yes"},
		tc{"shortest request line, LF only", "GET / HTTP/1.1\n", "yes"},
		tc{"HTTP/2 preface line", "PRI * HTTP/2.0\r\n", "yes"},
		tc{"HTTP/1.0", "POST /x HTTP/1.0\r\n", "yes"},
		tc{"ssh banner", "SSH-2.0-OpenSSH_8.9p1\r\n", "no"},
		tc{"other text line", "hello there, this is not http\n", "no"},
		tc{"lower-case protocol", "GET /foo/bar http/1.1\r\n", "no"},
		tc{"protocol without its space", "GET /foo/barXHTTP/1.1\r\n", "no"},
		tc{"8 KiB without a line feed", strings.Repeat("a", 8192), "more"},
		// a first line that has ended is decided, however short it is: no later byte makes it a request line
		tc{"a line of 4 letters", "PING\n", "no"},
		tc{"a line of 6 letters, CR LF", "EHLO x\r\n", "no"},
		tc{"an empty line", "\n", "no"},
		tc{"a line of 9 bytes", "GET / HTT\n", "no"},
		tc{"a short line and more behind it", "QUIT\r\nGET / HTTP/1.1\r\n", "no"},
	)
	for _, cs := range cases {
		base := msgScenario(c, msgMatcher{fn: fnName}, msgCase{})
		data := byteSliceSV(base.Heap, "data", []byte(cs.data))
		base.Name = cs.name
		base.Params = map[string]SV{"recv": {K: "struct", Desc: "m"}, "p0": data}
		base.MaxVisit = 20
		paths, err := evalPaths(fn, base)
		if err != nil || len(paths) == 0 {
			r.bad(rule, fnName, cs.name, c.pos(fn.Pos()), fmt.Sprintf("undecided: %v", err))
			continue
		}
		var got []string
		good := true
		for _, p := range paths {
			v := "undecided (" + p.Outcome + ")"
			if p.Outcome == "return" && len(p.Ret) == 2 && p.Ret[0].Known && (p.Ret[0].B || p.Ret[1].Known) {
				switch {
				case p.Ret[0].B:
					v = "more"
				case p.Ret[1].B:
					v = "yes"
				default:
					v = "no"
				}
			}
			got = append(got, v)
			if v != cs.want {
				good = false
			}
		}
		r.check(good, rule, fnName, cs.name, c.pos(fn.Pos()), cs.want, fmt.Sprintf("isHttp answers %v for %q, expected %s: a verdict before the first line is complete misroutes a request that arrives in pieces; a refusal of a complete request line loses it", dedup(got), abbreviate([]byte(cs.data)), cs.want))
	}
}

// c06Memo: verdicts are functions of the bytes on the stream now. A matcher that keeps what it parsed in the
// connection's variable table and reuses it in a later evaluation answers for bytes that may no longer be the ones
// at the head of the stream (a handler between two evaluations consumed or unwrapped them; the table is shared
// across Wrap). Variables that matcher-reachable code both sets and reads back are therefore limited to the
// reviewed cases.
var memoReviewed = map[string]string{
	"http_request": "the parsed request is reused by later http matcher evaluations on the same connection; between them only matchers run or handlers that hand on the same request stream (documented design of the http matcher, see the TODO in its Match)",
}

func c06Memo(c *Ctx, r *Report, rule string) {
	r.rule(rule, "no verdict from memory: a connection variable that matcher-reachable code sets (SetVar with a constant key) is read back (GetVar) in matcher-reachable code only in the reviewed cases; elsewhere a matcher decides on the bytes it reads in this evaluation", 1)
	mreach := c.matcherReach()
	keyOf := func(ci ssa.CallInstruction) (string, bool) {
		if len(ci.Common().Args) < 2 {
			return "", false
		}
		return constString(ci.Common().Args[1])
	}
	set := map[string]string{}
	for _, fn := range sortedFuncs(mreach) {
		for _, ci := range callsIn(fn) {
			if calleeID(ci) == "layer4.(*Connection).SetVar" {
				if k, ok := keyOf(ci); ok {
					set[k] = fname(fn)
				}
			}
		}
	}
	n := 0
	for _, fn := range sortedFuncs(mreach) {
		for _, ci := range callsIn(fn) {
			if calleeID(ci) != "layer4.(*Connection).GetVar" {
				continue
			}
			k, ok := keyOf(ci)
			if !ok {
				continue
			}
			setter, isSet := set[k]
			if !isSet {
				continue // set by handlers only (tls connection states ...): facts about the connection, not a matcher's memory
			}
			if call, isCall := ci.(*ssa.Call); isCall && onlyAccumulated(call, k) {
				continue // read only to be extended and stored back (a log of what was seen), never looked at
			}
			n++
			why, reviewed := memoReviewed[k]
			r.check(reviewed, rule, fname(fn), "variable "+k, c.ipos(ci), "reviewed: "+why, "the matcher reads back the connection variable \""+k+"\" that matcher code ("+setter+") stored in an earlier evaluation: its verdict is then about bytes seen earlier, not about the stream as it is now (after a handler consumed or unwrapped them the answer is stale)")
		}
	}
}

// onlyAccumulated: the value read from the variable table flows nowhere but - possibly extended by append - back
// into SetVar under the same key (and into nil tests that guard that).
func onlyAccumulated(v *ssa.Call, key string) bool {
	seen := map[ssa.Value]bool{}
	var walk func(x ssa.Value) bool
	walk = func(x ssa.Value) bool {
		if seen[x] || x.Referrers() == nil {
			return true
		}
		seen[x] = true
		for _, ref := range *x.Referrers() {
			switch y := ref.(type) {
			case *ssa.TypeAssert, *ssa.Extract, *ssa.Phi, *ssa.ChangeType, *ssa.ChangeInterface, *ssa.MakeInterface, *ssa.Slice:
				if !walk(y.(ssa.Value)) {
					return false
				}
			case *ssa.BinOp:
				if y.Op != token.EQL && y.Op != token.NEQ {
					return false
				}
			case *ssa.Store:
				if al, ok := y.Addr.(*ssa.Alloc); ok {
					for _, r2 := range *al.Referrers() {
						if ld, ok := r2.(*ssa.UnOp); ok && !walk(ld) {
							return false
						}
					}
				} else {
					return false
				}
			case *ssa.Call:
				switch id := calleeID(y); {
				case id == "builtin append" || id == "builtin len":
					if !walk(y) {
						return false
					}
				case id == "layer4.(*Connection).SetVar":
					if k, ok := constString(y.Call.Args[1]); !ok || k != key {
						return false
					}
				default:
					return false
				}
			case *ssa.DebugRef:
			case *ssa.If:
				return false // a branch on the stored value itself (a remembered yes/no): that is looking at it
			default:
				return false
			}
		}
		return true
	}
	return walk(v)
}
