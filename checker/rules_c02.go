package main

import (
	"fmt"
	"go/token"
	"go/types"
	"strings"

	"golang.org/x/tools/go/ssa"
)

func init() {
	register(&property{
		ID:          "C02",
		Explanation: "Static decision of the routing discipline: (R1) the AND/OR/NOT/empty combinators, evaluated by the path evaluator over every outcome sequence of up to 2 (3 for NOT) inner matchers, return exactly the truth-table result and stop at the first deciding matcher; (R2) the route's handler chain is invoked only under the true edge of 'matched' and the no-error edges of the same AnyMatch call; (R6) subroute compiles its routes with its own next handler as fallback on every invocation, Server uses the no-op and ListenerWrapper the hand-off fallback; (R7) bounded abstract interpretation of the compiled route handler's SSA for 0..3 routes with every outcome of matchers, prefetch and handlers (terminal / non-terminal / wrapping / failing): handlers run only right after their route matched the current stream, in order, never twice, a matched route is never passed over, nothing runs after a terminal route, the fallback runs exactly once, last, on the connection handed on, and only when every remaining route was decided 'no' on the stream as the last handler left it.",
		NotDecided:  "Route lists longer than 3 and more than 3 prefetch rounds (the loop is uniform in the route index, so this is a bound, not a sample); the verdicts of real matchers on real bytes (C06/C14); 'first matching route whenever decidable' beyond what the invariants of R7 state; timing.",
		Run:         runC02,
	})
}

func runC02(c *Ctx, r *Report) {
	c02R1(c, r, "C02.R1")
	c02R2(c, r, "C02.R2")
	c02R6(c, r, "C02.R6")
	c02Router(c, r, "C02.R7")
	c02R8(c, r, "C02.R8")
	c02Chain(c, r, "C02.R11")
	c02HandlersCompile(c, r, "C02.R14")
	c01R1(c, r, "C02.R10")   // every matcher of an AND-set starts at the first byte received so far (per-matcher freeze/unfreeze)
	c05R23(c, r, "C02.R15")  // the fallback receives the connection with its stream intact: on every path of the route loop the matching deadline is removed before the fallback (or a matched route's handlers) runs, also after an earlier non-terminal match
	c01R7(c, r, "C02.R16")   // matching continues on the connection as the handlers left it: a handler that built a reader on top of its connection hands on the connection wrapped around that reader on every path (what the reader has buffered would otherwise be missing from the stream later routes are matched on)
	c01R2(c, r, "C02.R17")   // "on the connection as its handlers left it": leaving matching mode puts the cursor back where matching started - after what earlier handlers consumed, not at the start of the buffer
	c01R4(c, r, "C02.R18")   // the route chosen is decided on the bytes received: one prefetch is one read - it does not wait for a second chunk when the first came back full (a client that has sent everything would be dropped by the timeout)
	c06Memo(c, r, "C02.R19") // "on the connection as its handlers left it": a verdict remembered in the connection's variables answers for the stream as it was before a handler changed it
	c01R5(c, r, "C02.R20")   // a handler that hands on a new connection builds it on the one it was given: what matching prefetched and nobody consumed stays in the stream the later routes see
	c08R6(c, r, "C02.R13")   // "matched the bytes received so far": a connection's matching buffer starts empty (a recycled slice keeps the length it was returned with)
	c13R3(c, r, "C02.R12")   // ... and its stream stays intact afterwards: the matching buffer of a handed-off connection is not recycled while the wrapped listener's consumer still replays from it
	c13R6(c, r, "C02.R9")    // the hand-off to a wrapped listener is a fallback: it receives the connection with its stream intact
}

type innerRes struct {
	m   bool
	err string // "" = nil
}

// combinatorTable evaluates fn for n inner matchers and every sequence of inner results.
func combinatorTable(c *Ctx, r *Report, rule, fnName, innerCallee string, setup func(sc *Scenario, n int), maxN int, ref func(seq []innerRes, n int) (bool, string, int)) {
	fn := c.Fn(fnName)
	if fn == nil {
		r.bad(rule, fnName, "exists", "-", "function not found")
		return
	}
	for n := 0; n <= maxN; n++ {
		sc := &Scenario{Name: fmt.Sprintf("n=%d", n), Heap: map[string]SV{}, Params: map[string]SV{}, MaxVisit: 8}
		setup(sc, n)
		sc.Alts = func(callee string, args []SV, ev *symEval, st *symState) []CallAlt {
			if callee != innerCallee {
				return nil
			}
			k := 0
			for _, e := range st.trace {
				if e.Kind == "call" && e.What == innerCallee {
					k++
				}
			}
			e := SV{K: "ref", Known: true, Desc: fmt.Sprintf("err%d", k)}
			tup := func(m bool, e SV) SV { return SV{K: "tuple", Desc: "inner", Elems: []SV{symBool(m), e}} }
			// the "need more data" answer is an error like any other for the combinators
			nm := SV{K: "ref", Known: true, Desc: "global:layer4.ErrConsumedAllPrefetchedBytes"}
			return []CallAlt{
				{Ret: tup(true, symNil()), Note: "T,nil"},
				{Ret: tup(false, symNil()), Note: "F,nil"},
				{Ret: tup(false, e), Note: "F," + e.Desc},
				{Ret: tup(true, e), Note: "T," + e.Desc},
				{Ret: tup(false, nm), Note: "F," + nm.Desc},
			}
		}
		paths, err := evalPaths(fn, sc)
		if err != nil || len(paths) == 0 {
			r.bad(rule, fnName, sc.Name, c.pos(fn.Pos()), fmt.Sprintf("undecided: %v", err))
			continue
		}
		var problems []string
		seen := map[string]bool{}
		for _, p := range paths {
			var seq []innerRes
			var notes []string
			for _, e := range p.Trace {
				if e.Kind == "call" && e.What == innerCallee {
					parts := strings.SplitN(e.Note, ",", 2)
					ir := innerRes{m: parts[0] == "T"}
					if parts[1] != "nil" {
						ir.err = parts[1]
					}
					seq = append(seq, ir)
					notes = append(notes, "("+e.Note+")")
				}
			}
			seen[strings.Join(notes, "")] = true
			wm, we, wcalls := ref(seq, n)
			if p.Outcome != "return" || len(p.Ret) != 2 {
				problems = append(problems, "no normal return for inner results "+strings.Join(notes, ""))
				continue
			}
			gm, ge := p.Ret[0], p.Ret[1]
			gotErr := ge.Desc
			if ge.Known && ge.Nil {
				gotErr = ""
			}
			if !(gm.K == "bool" && gm.Known) || gm.B != wm || gotErr != we || len(seq) != wcalls {
				problems = append(problems, fmt.Sprintf("inner results %s: returns (%s, %s) after %d inner call(s); the truth table requires (%v, %s) after %d", strings.Join(notes, ""), gm.Desc, ge.Desc, len(seq), wm, orNil(we), wcalls))
			}
		}
		if len(problems) == 0 {
			r.ok(rule, fnName, sc.Name, c.pos(fn.Pos()), fmt.Sprintf("%d paths, %d distinct inner-result sequences, all agree with the truth table", len(paths), len(seen)))
		} else {
			r.bad(rule, fnName, sc.Name, c.pos(fn.Pos()), strings.Join(dedup(problems), "\n"))
		}
	}
}

func orNil(s string) string {
	if s == "" {
		return "nil"
	}
	return s
}

func c02R1(c *Ctx, r *Report, rule string) {
	r.rule(rule, "combinator truth tables: MatcherSet.Match = AND (first non-(true,nil) inner result is returned unchanged, else (true,nil)); MatcherSets.AnyMatch = OR (first (true,·) or (·,err) returned unchanged, else (no sets, nil)); MatchNot.Match = NOT of OR (error -> (false,err), match -> (false,nil), else (true,nil)); inner matchers after the deciding one are not evaluated", 9)
	combinatorTable(c, r, rule, "layer4.(MatcherSet).Match", "invoke layer4.ConnMatcher.Match",
		func(sc *Scenario, n int) {
			sc.Params["recv"] = symSlice("mset", int64(n))
			sc.Params["p0"] = symRef("cx", false)
		}, 2,
		func(seq []innerRes, n int) (bool, string, int) {
			for i := 0; i < n; i++ {
				if i >= len(seq) {
					return false, "?", i + 1
				}
				if !seq[i].m || seq[i].err != "" {
					return seq[i].m, seq[i].err, i + 1
				}
			}
			return true, "", n
		})
	combinatorTable(c, r, rule, "layer4.(*MatcherSets).AnyMatch", "layer4.(MatcherSet).Match",
		func(sc *Scenario, n int) {
			sc.Params["recv"] = symRef("recv", false)
			sc.Heap["recv"] = symSlice("sets", int64(n))
			sc.Params["p0"] = symRef("cx", false)
		}, 2,
		func(seq []innerRes, n int) (bool, string, int) {
			for i := 0; i < n; i++ {
				if i >= len(seq) {
					return false, "?", i + 1
				}
				if seq[i].m || seq[i].err != "" {
					return seq[i].m, seq[i].err, i + 1
				}
			}
			return n == 0, "", n
		})
	combinatorTable(c, r, rule, "layer4.(*MatchNot).Match", "layer4.(MatcherSet).Match",
		func(sc *Scenario, n int) {
			sc.Params["recv"] = symRef("recv", false)
			sc.Heap["recv.MatcherSets"] = symSlice("sets", int64(n))
			sc.Params["p0"] = symRef("cx", false)
		}, 2,
		func(seq []innerRes, n int) (bool, string, int) {
			for i := 0; i < n; i++ {
				if i >= len(seq) {
					return false, "?", i + 1
				}
				if seq[i].err != "" {
					return false, seq[i].err, i + 1
				}
				if seq[i].m {
					return false, "", i + 1
				}
			}
			return true, "", n
		})
}

// chainHandleCalls returns the invocations of Handler.Handle in the compiled route handler that
// are not on the captured fallback `next`.
func routerHandleCalls(c *Ctx, outer *ssa.Function) (chain, fallback []*ssa.Call) {
	for _, ci := range callsIn(outer) {
		call, ok := ci.(*ssa.Call)
		if ok && !isInvoke(ci, "Handle") {
			// a helper of the router's package that runs a handler chain on the connection it is given
			if g := call.Call.StaticCallee(); g != nil && g.Pkg == outer.Pkg && g.Pkg != nil && len(g.Blocks) > 0 && !strings.Contains(fname(g), "(*Connection)") && !strings.Contains(fname(g), "MatcherSet") {
				runs := false
				for h := range c.reachSync(g) {
					if h.Pkg != outer.Pkg {
						continue
					}
					for _, cj := range callsIn(h) {
						if _, isCall := cj.(*ssa.Call); isCall && isInvoke(cj, "Handle") {
							runs = true
						}
					}
				}
				if runs {
					chain = append(chain, call)
				}
			}
			continue
		}
		if !ok {
			continue
		}
		isNext := false
		for _, o := range origins(call.Call.Value, sliceOpts{}) {
			if o.Kind == "param" && o.Desc == "next" {
				isNext = true
			}
		}
		if u, ok := call.Call.Value.(*ssa.UnOp); ok && u.Op == token.MUL {
			if fv, ok := u.X.(*ssa.FreeVar); ok && fv.Name() == "next" {
				isNext = true
			}
		}
		if isNext {
			fallback = append(fallback, call)
		} else {
			chain = append(chain, call)
		}
	}
	return
}

func c02R2(c *Ctx, r *Report, rule string) {
	r.rule(rule, "in the compiled route handler every invocation of a route's handler chain is dominated by the true edge of 'matched', the false edge of errors.Is(err, need-more) and the false edge of err != nil of one and the same AnyMatch call", 1)
	outer := c.Fn("layer4.(RouteList).Compile$1")
	if outer == nil {
		r.bad(rule, "layer4.(RouteList).Compile$1", "exists", "-", "compiled handler closure not found")
		return
	}
	name := fname(outer)
	chain, _ := routerHandleCalls(c, outer)
	for i, call := range chain {
		k := fmt.Sprintf("route-handlers#%d", i+1)
		var am *ssa.Call
		gotMatched, gotNoErr, gotNotNeedMore := false, false, false
		for _, cd := range edgeConds(call.Block()) {
			// matched?
			if ex, ok := cd.V.(*ssa.Extract); ok && ex.Index == 0 {
				if cl, ok := ex.Tuple.(*ssa.Call); ok && calleeID(cl) == "layer4.(*MatcherSets).AnyMatch" && cd.Truth {
					am = cl
					gotMatched = true
				}
			}
		}
		if am != nil {
			errV := extractOf(am, 1)
			for _, cd := range edgeConds(call.Block()) {
				if x, neq, ok := nilCheck(cd.V); ok && errV != nil && x == ssa.Value(errV) {
					if (neq && !cd.Truth) || (!neq && cd.Truth) {
						gotNoErr = true
					}
				}
				if cl, ok := cd.V.(*ssa.Call); ok && calleeID(cl) == "errors.Is" && errV != nil && cl.Call.Args[0] == ssa.Value(errV) && !cd.Truth {
					gotNotNeedMore = true
				}
			}
		}
		r.check(gotMatched && gotNoErr, rule, name, k, c.ipos(call),
			"handlers run only on the matched & no-error edges of the route's AnyMatch",
			fmt.Sprintf("a route's handlers can run without its matchers having matched (matched-edge:%v no-error-edge:%v need-more-excluded:%v)", gotMatched, gotNoErr, gotNotNeedMore))
	}
}

func c02R6(c *Ctx, r *Report, rule string) {
	r.rule(rule, "fallback wiring: l4subroute.Handle compiles its routes on every invocation with its own `next` parameter as fallback and returns the compiled handler's result on its own connection; Server.Provision compiles with nopHandler, ListenerWrapper.Provision with listenerHandler", 3)
	compileID := "layer4.(RouteList).Compile"
	// subroute
	name := "modules/l4subroute.(*Handler).Handle"
	if fn := c.Fn(name); fn == nil {
		r.bad(rule, name, "exists", "-", "function not found")
	} else {
		var comp *ssa.Call
		for _, ci := range callsIn(fn) {
			if calleeID(ci) == compileID {
				comp, _ = ci.(*ssa.Call)
			}
		}
		good := comp != nil && len(fn.Params) == 3 && rootOf(comp.Call.Args[3]) == ssa.Value(fn.Params[2])
		detail := "Compile is not called in Handle with the handler's own next parameter as fallback (a cached or different fallback makes connections after the first call someone else's continuation)"
		if good {
			// the handler invoked must be that very result, on cx, and its result returned
			good = false
			for _, ci := range callsIn(fn) {
				call, ok := ci.(*ssa.Call)
				if ok && isInvoke(ci, "Handle") && rootOf(call.Call.Value) == ssa.Value(comp) && rootOf(call.Call.Args[0]) == ssa.Value(fn.Params[1]) {
					for _, ret := range returnsOf(fn) {
						if len(ret.Results) == 1 && ret.Results[0] == ssa.Value(call) {
							good = true
						}
					}
				}
			}
			detail = "the handler compiled in this invocation is not the one run on the handler's own connection with its result returned"
		}
		pos := c.pos(fn.Pos())
		r.check(good, rule, name, "subroute fallback = next", pos, "Compile(..., next) is run on cx and its result returned", detail)
	}
	for _, w := range []struct{ fn, want string }{
		{"layer4.(*Server).Provision", "layer4.nopHandler"},
		{"layer4.(*ListenerWrapper).Provision", "layer4.listenerHandler"},
	} {
		fn := c.Fn(w.fn)
		if fn == nil {
			r.bad(rule, w.fn, "exists", "-", "function not found")
			continue
		}
		found := false
		for _, ci := range callsIn(fn) {
			if calleeID(ci) != compileID {
				continue
			}
			if mi, ok := ci.Common().Args[3].(*ssa.MakeInterface); ok && namedName(mi.X.Type()) == w.want {
				found = true
			}
		}
		r.check(found, rule, w.fn, "fallback "+w.want, c.pos(fn.Pos()), "routes compiled with "+w.want+" as fallback", "routes are not compiled with "+w.want+" as the fallback handler")
	}
}

func c02Router(c *Ctx, r *Report, rule string) {
	r.rule(rule, "bounded abstract interpretation of the compiled route handler (0..3 routes, every outcome of matchers/prefetch/handlers): handlers run only right after their route matched the current stream, in order, never twice; a matched route is never passed over; nothing runs after a terminal route; the fallback runs exactly once, last, only when every remaining route is decided as not matching the stream as the last handler left it, on the connection handed on", 4)
	for n := 0; n <= 3; n++ {
		rounds := 3
		if n == 3 {
			rounds = 2
		}
		paths, err := exploreRouter(c, n, rounds)
		name := "layer4.(RouteList).Compile$1"
		if err != nil {
			r.bad(rule, name, fmt.Sprintf("routes=%d", n), "-", "undecided: "+err.Error())
			continue
		}
		nbad := 0
		var first []string
		cut := 0
		for _, p := range paths {
			if p.Outcome != "return" {
				cut++
			}
			if b := routerInvariants(p, n, "routing"); len(b) > 0 {
				nbad++
				if len(first) < 3 {
					first = append(first, strings.Join(b, "; ")+"   on path: "+p.String())
				}
			}
		}
		if cut > 0 {
			nbad++
			first = append(first, fmt.Sprintf("%d path(s) did not reach a return within the exploration bound (undecided)", cut))
		}
		if nbad == 0 {
			r.ok(rule, name, fmt.Sprintf("routes=%d", n), "-", fmt.Sprintf("%d paths explored, all satisfy the routing invariants; e.g. %s", len(paths), paths[len(paths)/2].String()))
		} else {
			r.bad(rule, name, fmt.Sprintf("routes=%d", n), "-", fmt.Sprintf("%d of %d paths violate the routing invariants:\n%s", nbad, len(paths), strings.Join(first, "\n")))
		}
	}
}

// c02R8: lists collected in a loop do not share storage. A slice that is emptied for reuse (x = x[:0]) keeps its
// backing array; appending it as an element to a collection inside the loop makes every collected element the
// same storage, overwritten by the next iteration (several matcher sets of a route all become the last one).
func c02R8(c *Ctx, r *Report, rule string) {
	r.rule(rule, "no slice that is reset for reuse (x[:0]) is appended as an element to a collection inside a loop: every matcher set / list collected per iteration has storage of its own", 3)
	for _, fn := range c.Funcs {
		if len(fn.Blocks) == 0 {
			continue
		}
		n := 0
		for _, b := range fn.Blocks {
			if !inLoop(b) {
				continue
			}
			for _, in := range b.Instrs {
				st, ok := in.(*ssa.Store)
				if !ok {
					continue
				}
				if _, isSl := st.Val.Type().Underlying().(*types.Slice); !isSl {
					continue
				}
				ia, ok := st.Addr.(*ssa.IndexAddr)
				if !ok {
					continue
				}
				al, ok := ia.X.(*ssa.Alloc)
				if !ok || !strings.Contains(al.Comment, "varargs") {
					continue
				}
				n++
				// provenance of the element's storage
				reused := ""
				seen := map[ssa.Value]bool{}
				var walk func(v ssa.Value, d int)
				walk = func(v ssa.Value, d int) {
					if v == nil || seen[v] || d > 30 {
						return
					}
					seen[v] = true
					switch x := v.(type) {
					case *ssa.Phi:
						for _, e := range x.Edges {
							walk(e, d+1)
						}
					case *ssa.Call:
						if calleeID(x) == "builtin append" && len(x.Call.Args) > 0 {
							walk(x.Call.Args[0], d+1)
						}
					case *ssa.Slice:
						if hi, isC := constInt(x.High); isC && hi == 0 && x.High != nil {
							reused = c.ipos(x)
							return
						}
						walk(x.X, d+1)
					case *ssa.ChangeType:
						walk(x.X, d+1)
					case *ssa.UnOp:
						if al2, ok := x.X.(*ssa.Alloc); ok && x.Op == token.MUL {
							for _, s2 := range storesTo(al2) {
								walk(s2, d+1)
							}
						}
					}
				}
				walk(st.Val, 0)
				r.check(reused == "", rule, fname(fn), fmt.Sprintf("collected list#%d", n), c.ipos(st), "the collected list has its own storage", "the list appended to the collection here is a slice emptied for reuse at "+reused+": all collected elements share one backing array and end up equal to the last one")
			}
		}
	}
}
