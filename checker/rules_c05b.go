package main

import (
	"fmt"
	"strings"
)

// c05UDPDeadline: the matching deadline of a UDP association is implemented by the module itself (packetConn). The
// four pieces are evaluated path by path:
//
//	SetReadDeadline  stores 0 for the zero time and t.UnixNano() otherwise, and (re)arms the deadline timer with
//	                 time.Until(t) - an existing timer is Reset, a missing one created - and returns nil;
//	loadDeadline     answers the zero time iff 0 is stored, otherwise time.Unix(0, stored);
//	isDeadlineExceeded answers false for the zero time and t.Before(now) otherwise;
//	Read             with nothing left over answers (0, os.ErrDeadlineExceeded) at once when the deadline is exceeded,
//	                 and when the deadline timer fires while it waits: the same if the deadline is exceeded by then,
//	                 otherwise it goes on waiting.
func c05UDPDeadline(c *Ctx, r *Report, rule string) {
	r.rule(rule, "UDP matching deadline (path evaluation of packetConn.SetReadDeadline, loadDeadline, isDeadlineExceeded and the waiting part of Read): the deadline is stored and read back without loss, the timer is armed with time.Until(t) on every call, an exceeded deadline ends Read with (0, os.ErrDeadlineExceeded) before and during the wait, a timer that fires early does not", 6)
	timeCalls := func(callee string, args []SV) (SV, bool) {
		switch {
		case callee == "(time.Time).UnixNano":
			return SV{K: "int", Desc: "unixnano(" + args[0].Desc + ")"}, true
		case callee == "time.Until":
			return SV{K: "int", Desc: "until(" + args[0].Desc + ")"}, true
		case callee == "time.Unix" && len(args) == 2:
			return SV{K: "struct", Desc: "unix(" + args[0].Desc + "," + args[1].Desc + ")"}, true
		case callee == "time.Now":
			return SV{K: "struct", Desc: "now"}, true
		case callee == "time.NewTimer":
			return symRef("newtimer("+args[0].Desc+")", false), true
		case callee == "(*time.Timer).Reset":
			return symBool(true), true
		case callee == "(*time.Timer).Stop":
			return symBool(true), true
		}
		return SV{}, false
	}
	// ---- SetReadDeadline
	if fn := c.Fn("layer4.(*packetConn).SetReadDeadline"); fn == nil {
		r.bad(rule, "layer4.(*packetConn).SetReadDeadline", "exists", "-", "function not found")
	} else {
		for _, zero := range []bool{true, false} {
			for _, haveTimer := range []bool{true, false} {
				name := fmt.Sprintf("zero=%v,timer=%v", zero, haveTimer)
				sc := &Scenario{Name: name, Params: map[string]SV{"recv": symRef("pc", false), "p0": {K: "struct", Desc: "t"}},
					Heap: map[string]SV{"pc.deadlineTimer": symRef("timer", false)}}
				if !haveTimer {
					sc.Heap["pc.deadlineTimer"] = symNil()
				}
				sc.Call = func(callee string, args []SV, ev *symEval, st *symState) (SV, bool) {
					if callee == "(time.Time).IsZero" {
						return symBool(zero), true
					}
					if strings.HasSuffix(callee, "atomic.Int64).Store") {
						return symOpaque("stored"), true
					}
					return timeCalls(callee, args)
				}
				paths, err := evalPaths(fn, sc)
				if err != nil || len(paths) != 1 {
					r.bad(rule, fname(fn), name, c.pos(fn.Pos()), fmt.Sprintf("undecided: %d paths, %v", len(paths), err))
					continue
				}
				p := paths[0]
				var problems []string
				var stored []string
				armed := ""
				for _, e := range p.Trace {
					if e.Kind == "call" && strings.HasSuffix(e.What, "atomic.Int64).Store") && len(e.Args) == 2 {
						stored = append(stored, e.Args[1])
						if e.Args[0] != "pc.deadline" {
							problems = append(problems, "stores into "+e.Args[0])
						}
					}
					if e.Kind == "call" && e.What == "(*time.Timer).Reset" && len(e.Args) == 2 {
						if e.Args[0] != "timer" {
							problems = append(problems, "resets "+e.Args[0])
						}
						armed = e.Args[1]
					}
				}
				if v, ok := p.Heap["pc.deadlineTimer"]; ok && strings.HasPrefix(v.Desc, "newtimer(") {
					if haveTimer {
						problems = append(problems, "replaces the timer Read may be waiting on")
					}
					armed = strings.TrimSuffix(strings.TrimPrefix(v.Desc, "newtimer("), ")")
				}
				want := "unixnano(t)"
				if zero {
					want = "0"
				}
				if len(stored) != 1 || stored[0] != want {
					problems = append(problems, fmt.Sprintf("stores %v as the deadline, expected [%s]", stored, want))
				}
				if armed != "until(t)" {
					problems = append(problems, fmt.Sprintf("the deadline timer is armed with %q, expected time.Until(t): a waiting Read is not woken when the matching deadline passes (UDP matching never times out)", armed))
				}
				if len(p.Ret) != 1 || !(p.Ret[0].Known && p.Ret[0].Nil) {
					problems = append(problems, "returns "+p.retDesc())
				}
				r.check(len(problems) == 0, rule, fname(fn), name, c.pos(fn.Pos()), "stored "+want+", armed with time.Until(t)", strings.Join(problems, "; "))
			}
		}
	}
	// ---- loadDeadline
	if fn := c.Fn("layer4.(*packetConn).loadDeadline"); fn == nil {
		r.bad(rule, "layer4.(*packetConn).loadDeadline", "exists", "-", "function not found")
	} else {
		for _, ns := range []int64{0, 1, 1700000000000000000} {
			name := fmt.Sprintf("stored=%d", ns)
			sc := &Scenario{Name: name, Params: map[string]SV{"recv": symRef("pc", false)}}
			sc.Call = func(callee string, args []SV, ev *symEval, st *symState) (SV, bool) {
				if strings.HasSuffix(callee, "atomic.Int64).Load") {
					return symInt(ns), true
				}
				return timeCalls(callee, args)
			}
			paths, err := evalPaths(fn, sc)
			if err != nil || len(paths) != 1 || len(paths[0].Ret) != 1 {
				r.bad(rule, fname(fn), name, c.pos(fn.Pos()), fmt.Sprintf("undecided: %d paths, %v", len(paths), err))
				continue
			}
			got := paths[0].Ret[0].Desc
			want := fmt.Sprintf("unix(0,%d)", ns)
			good := got == want
			if ns == 0 {
				good = strings.HasPrefix(got, "zero")
				want = "the zero time"
			}
			r.check(good, rule, fname(fn), name, c.pos(fn.Pos()), "answers "+want, fmt.Sprintf("with %d stored the deadline read back is %s, expected %s", ns, got, want))
		}
	}
	// ---- isDeadlineExceeded
	if fn := c.Fn("layer4.isDeadlineExceeded"); fn == nil {
		r.bad(rule, "layer4.isDeadlineExceeded", "exists", "-", "function not found")
	} else {
		for _, zero := range []bool{true, false} {
			for _, before := range []bool{true, false} {
				name := fmt.Sprintf("zero=%v,before-now=%v", zero, before)
				sc := &Scenario{Name: name, Params: map[string]SV{"p0": {K: "struct", Desc: "t"}}}
				sc.Call = func(callee string, args []SV, ev *symEval, st *symState) (SV, bool) {
					switch callee {
					case "(time.Time).IsZero":
						return symBool(zero), true
					case "(time.Time).Before":
						if len(args) == 2 && args[0].Desc == "t" && args[1].Desc == "now" {
							return symBool(before), true
						}
						return symBool(!before), true
					case "(time.Time).After":
						if len(args) == 2 && args[0].Desc == "now" && args[1].Desc == "t" {
							return symBool(before), true
						}
						return symBool(!before), true
					}
					return timeCalls(callee, args)
				}
				paths, err := evalPaths(fn, sc)
				good := err == nil && len(paths) > 0
				want := !zero && before
				for _, p := range paths {
					if len(p.Ret) != 1 || !p.Ret[0].Known || p.Ret[0].B != want {
						good = false
					}
				}
				r.check(good, rule, fname(fn), name, c.pos(fn.Pos()), fmt.Sprintf("answers %v", want), fmt.Sprintf("isDeadlineExceeded answers otherwise than %v", want))
			}
		}
	}
	// ---- Read: entry and wait
	if fn := c.Fn("layer4.(*packetConn).Read"); fn == nil {
		r.bad(rule, "layer4.(*packetConn).Read", "exists", "-", "function not found")
	} else {
		nEx := 0
		l := symInt(4)
		sc := &Scenario{Name: "deadline", MaxVisit: 3,
			Params: map[string]SV{"recv": symRef("pc", false), "p0": {K: "slice", Desc: "b", Len: &l, Cap: &l}},
			Heap:   map[string]SV{"pc.lastPacket": symNil(), "pc.idleTimer": symRef("idle", false), "pc.deadlineTimer": symRef("timer", false)},
		}
		sc.Call = func(callee string, args []SV, ev *symEval, st *symState) (SV, bool) {
			if callee == "layer4.(*packetConn).loadDeadline" {
				return SV{K: "struct", Desc: "deadline"}, true
			}
			return timeCalls(callee, args)
		}
		sc.Alts = func(callee string, args []SV, ev *symEval, st *symState) []CallAlt {
			if callee == "layer4.isDeadlineExceeded" {
				nEx++
				return []CallAlt{{Ret: symBool(true), Note: "exceeded"}, {Ret: symBool(false), Note: "not exceeded"}}
			}
			return nil
		}
		paths, err := evalPaths(fn, sc)
		if err != nil || len(paths) == 0 {
			r.bad(rule, fname(fn), "deadline in Read", c.pos(fn.Pos()), fmt.Sprintf("undecided: %v", err))
		} else {
			var problems []string
			entry, during, early := 0, 0, 0
			for _, p := range paths {
				// events in order: the checks of the deadline and the selects
				var seq []string
				for _, e := range p.Trace {
					if e.Kind == "call" && e.What == "layer4.isDeadlineExceeded" {
						if len(e.Args) != 1 || e.Args[0] != "deadline" {
							problems = append(problems, "the deadline test is given "+strings.Join(e.Args, ",")+" instead of the stored deadline")
						}
						seq = append(seq, e.Note)
					}
					if e.Kind == "select" {
						seq = append(seq, "select")
					}
				}
				fired := selectFired(p)
				isTimeout := p.Outcome == "return" && len(p.Ret) == 2 && p.Ret[0].Known && p.Ret[0].N == 0 && strings.Contains(p.Ret[1].Desc, "ErrDeadlineExceeded")
				if len(seq) == 0 {
					problems = append(problems, "Read waits without testing the deadline first")
					continue
				}
				if seq[0] == "exceeded" {
					entry++
					if !isTimeout || len(seq) != 1 {
						problems = append(problems, "with the deadline exceeded on entry Read does not answer (0, os.ErrDeadlineExceeded) at once: "+fmtTrace(p))
					}
					continue
				}
				// walk the selects: after a fired deadline timer the deadline is tested again
				si := 0
				for i := 1; i < len(seq); i++ {
					if seq[i] != "select" {
						continue
					}
					if si >= len(fired) {
						break
					}
					f := fired[si]
					si++
					if !strings.Contains(f, "timer.C") && !strings.Contains(f, "deadlineTimer") {
						break // another communication ended or continued the wait: not the subject here
					}
					if i+1 >= len(seq) || seq[i+1] == "select" {
						problems = append(problems, "the deadline timer fired but the deadline is not tested again")
						break
					}
					if seq[i+1] == "exceeded" {
						during++
						if !isTimeout {
							problems = append(problems, "the deadline passes while Read waits but Read does not answer (0, os.ErrDeadlineExceeded): "+p.Outcome+"("+p.retDesc()+")")
						}
						break
					}
					early++
					if i+2 < len(seq) && seq[i+2] != "select" {
						problems = append(problems, "after an early timer Read does not go on waiting")
					}
					i++
				}
			}
			if entry == 0 || during == 0 || early == 0 {
				problems = append(problems, fmt.Sprintf("not all deadline situations were met (on entry %d, during the wait %d, early timer %d)", entry, during, early))
			}
			r.check(len(problems) == 0, rule, fname(fn), "deadline in Read", c.pos(fn.Pos()), fmt.Sprintf("%d paths: exceeded on entry %d, during the wait %d, early timer %d", len(paths), entry, during, early), strings.Join(dedup(problems), "; "))
		}
	}
}

// c05TimeoutWiring: the timeout the compiled routes work with is the configured matching_timeout, or the default when
// none (or a non-positive one) is configured - wherever the value travels between Provision and the place that
// compiles the routes. Provision is evaluated for matching_timeout 0, -5 and 7; the state it leaves is the state the
// compiling function (Provision itself for servers and listener wrappers, Handle for subroutes) is evaluated in.
func c05TimeoutWiring(c *Ctx, r *Report, rule string) {
	r.rule(rule, "timeout wiring (path evaluation of Provision for matching_timeout 0 / -5 / 7, then of the function that compiles the routes in the state Provision left): RouteList.Compile is given the default matching timeout when none or a non-positive one is configured, the configured one otherwise - for servers, listener wrappers and subroutes", 9)
	def := int64(-1)
	if p := c.ByPath[modPath+"/layer4"]; p != nil {
		def = constOf(scopeLookup(p.Types, "MatchingTimeoutDefault"))
	}
	if def <= 0 {
		r.bad(rule, "layer4", "MatchingTimeoutDefault", "-", "the default matching timeout is not a positive constant")
		return
	}
	calls := func(callee string, args []SV, ev *symEval, st *symState) (SV, bool) {
		switch {
		case callee == "layer4.(RouteList).Compile":
			return symRef("compiled", false), true
		case strings.HasPrefix(callee, "(*go.uber.org/zap.Logger)"), strings.HasPrefix(callee, "go.uber.org/zap."), strings.Contains(callee, "caddy/v2.Context).Logger"):
			return symRef("logger", false), true
		case callee == "fmt.Errorf":
			return SV{K: "ref", Known: true, Desc: "errorf"}, true
		}
		return SV{}, false
	}
	for _, t := range []struct{ prov, user string }{
		{"layer4.(*Server).Provision", "layer4.(*Server).Provision"},
		{"layer4.(*ListenerWrapper).Provision", "layer4.(*ListenerWrapper).Provision"},
		{"modules/l4subroute.(*Handler).Provision", "modules/l4subroute.(*Handler).Handle"},
	} {
		pf, uf := c.Fn(t.prov), c.Fn(t.user)
		if pf == nil || uf == nil {
			r.bad(rule, t.prov, "exists", "-", "Provision or the compiling function not found")
			continue
		}
		for _, mt := range []int64{0, -5, 7} {
			name := fmt.Sprintf("matching_timeout=%d", mt)
			want := mt
			if mt <= 0 {
				want = def
			}
			sc := &Scenario{Name: name, MaxVisit: 4, MaxPaths: 4000, NoDefaultInline: true,
				Params: map[string]SV{"recv": symRef("self", false)},
				ByType: map[string]SV{"caddy/v2.Context": {K: "struct", Desc: "ctx"}},
				Heap:   map[string]SV{"self.MatchingTimeout": symInt(mt)}, Call: calls}
			paths, err := evalPaths(pf, sc)
			if err != nil || len(paths) == 0 {
				r.bad(rule, t.user, name, c.pos(pf.Pos()), fmt.Sprintf("undecided: %v", err))
				continue
			}
			var problems []string
			seen := 0
			judge := func(p Path) {
				for _, e := range p.Trace {
					if e.Kind == "call" && e.What == "layer4.(RouteList).Compile" && len(e.Args) >= 3 {
						seen++
						if e.Args[2] != fmt.Sprint(want) {
							problems = append(problems, fmt.Sprintf("the routes are compiled with the matching timeout %s, expected %d: with 0 the first wait for more bytes times out at once and the connection is dropped before any route or the fallback runs", e.Args[2], want))
						}
					}
				}
			}
			ok := 0
			for _, p := range paths {
				if p.Outcome != "return" || len(p.Ret) != 1 || !(p.Ret[0].Known && p.Ret[0].Nil) {
					continue // provisioning failed
				}
				ok++
				if t.user == t.prov {
					judge(p)
					continue
				}
				heap := map[string]SV{}
				for k, v := range p.Heap {
					if strings.HasPrefix(k, "self.") {
						heap[k] = v
					}
				}
				sc2 := &Scenario{Name: name + ",use", MaxVisit: 4, MaxPaths: 2000, NoDefaultInline: true,
					Params: map[string]SV{"recv": symRef("self", false)}, Heap: heap, Call: calls}
				p2, err2 := evalPaths(uf, sc2)
				if err2 != nil || len(p2) == 0 {
					problems = append(problems, fmt.Sprintf("undecided: %v", err2))
					continue
				}
				for _, q := range p2 {
					judge(q)
				}
			}
			if ok == 0 {
				problems = append(problems, "no successful provisioning path")
			}
			if seen == 0 {
				problems = append(problems, "the routes are not compiled on any evaluated path")
			}
			r.check(len(problems) == 0, rule, t.user, name, c.pos(uf.Pos()), fmt.Sprintf("compiled with %d", want), strings.Join(dedup(problems), "; "))
		}
	}
}
