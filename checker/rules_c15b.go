package main

import (
	"fmt"
	"sort"
	"strings"

	"golang.org/x/tools/go/ssa"
)

// c15Cursor: the cursor contract between Caddyfile helpers and their callers. A helper that takes the dispenser is
// written for one position of the cursor (on the wrapper/option name, or before it); every caller must hand it
// over in that position. The position at a call site is "advanced" when a cursor-moving call on the same
// dispenser (Next, NextArg, NextBlock, NextLine, RemainingArgs, NextSegment) can run before it in the caller,
// otherwise it is the caller's own entry position: "fresh" for UnmarshalCaddyfile methods, global option
// parsers and dispensers just made by NewFromNextSegment, the (agreed) position of its callers for a helper.
// All call sites of one helper must agree, and an UnmarshalCaddyfile method called directly gets a fresh one.
func c15Cursor(c *Ctx, r *Report, rule string) {
	r.rule(rule, "cursor contract of Caddyfile helpers: every call site of a module function taking the dispenser hands it over in the same position (fresh, or advanced by the caller), and UnmarshalCaddyfile methods called directly get a fresh dispenser", 6)
	isDisp := func(v ssa.Value) bool { return strings.HasSuffix(typeStr(v.Type()), "caddyfile.Dispenser") }
	moves := func(id string) bool {
		if !strings.Contains(id, "caddyfile.Dispenser).") {
			return false
		}
		for _, m := range []string{"Next", "NextArg", "NextBlock", "NextLine", "RemainingArgs", "RemainingArgsRaw", "NextSegment", "AllArgs", "Args"} {
			if strings.HasSuffix(id, ")."+m) {
				return true
			}
		}
		return false
	}
	type site struct {
		caller *ssa.Function
		call   ssa.CallInstruction
		arg    ssa.Value
	}
	sites := map[*ssa.Function][]site{}
	for _, fn := range c.Funcs {
		if fn.Pkg == nil || !strings.HasPrefix(fn.Pkg.Pkg.Path(), modPath) {
			continue
		}
		for _, ci := range callsIn(fn) {
			callee := ci.Common().StaticCallee()
			if callee == nil || callee.Pkg == nil || !strings.HasPrefix(callee.Pkg.Pkg.Path(), modPath) {
				continue
			}
			for _, a := range ci.Common().Args {
				if isDisp(a) {
					sites[callee] = append(sites[callee], site{fn, ci, a})
					break
				}
			}
		}
	}
	memo := map[*ssa.Function]string{}
	var entryState func(fn *ssa.Function, depth int) string
	stateAt := func(s site, depth int) string {
		for _, ci := range callsIn(s.caller) {
			if !moves(calleeID(ci)) || len(ci.Common().Args) == 0 || ci.Common().Args[0] != s.arg {
				continue
			}
			if ci == s.call {
				continue
			}
			if canReach(ci, s.call) {
				return "advanced"
			}
		}
		if _, isParam := s.arg.(*ssa.Parameter); isParam {
			return entryState(s.caller, depth+1)
		}
		if call, ok := s.arg.(*ssa.Call); ok {
			_ = call
			return "fresh"
		}
		return "unknown"
	}
	entryState = func(fn *ssa.Function, depth int) string {
		if st, ok := memo[fn]; ok {
			return st
		}
		if fn.Name() == "UnmarshalCaddyfile" || len(sites[fn]) == 0 || depth > 4 {
			return "fresh" // the adapter's convention: the cursor stands before the directive's own name
		}
		memo[fn] = "fresh"
		states := map[string]bool{}
		for _, s := range sites[fn] {
			states[stateAt(s, depth)] = true
		}
		st := "mixed"
		if len(states) == 1 {
			for k := range states {
				st = k
			}
		}
		memo[fn] = st
		return st
	}
	var helpers []*ssa.Function
	for fn := range sites {
		helpers = append(helpers, fn)
	}
	sort.Slice(helpers, func(i, j int) bool { return fname(helpers[i]) < fname(helpers[j]) })
	n := 0
	for _, h := range helpers {
		var parts []string
		states := map[string]bool{}
		for _, s := range sites[h] {
			st := stateAt(s, 0)
			states[st] = true
			parts = append(parts, fmt.Sprintf("%s at %s: %s", fname(s.caller), c.ipos(s.call), st))
		}
		sort.Strings(parts)
		n++
		if h.Name() == "UnmarshalCaddyfile" {
			ok := len(states) == 1 && states["fresh"]
			r.check(ok, rule, fname(h), "called with a fresh dispenser", c.pos(h.Pos()), fmt.Sprintf("%d direct call(s), all fresh", len(sites[h])), "an UnmarshalCaddyfile method is handed a dispenser whose cursor the caller has already moved (it would skip its own name): "+strings.Join(parts, "; "))
			continue
		}
		ok := len(states) == 1 && !states["unknown"] && !states["mixed"]
		r.check(ok, rule, fname(h), "call sites agree", c.pos(h.Pos()), fmt.Sprintf("%d call site(s): %s", len(sites[h]), strings.Join(parts, "; ")), "the callers of this helper hand over the dispenser in different positions - it consumes one token too many or too few for some of them: "+strings.Join(parts, "; "))
	}
}
