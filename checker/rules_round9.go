package main

import (
	"fmt"
	"go/token"
	"go/types"
	"sort"
	"strings"

	"golang.org/x/tools/go/ssa"
)

// c01TeeKeepsPipeOpen: the branch of a tee sees the end of the stream when the reading side (nextConn.Read) meets
// io.EOF. The tee handler itself must not close the pipe when next.Handle returns: when the tee is the last handler
// of a route that is not terminal, next is the router's continuation, which returns at once while later routes (or
// the wrapped listener's consumer) still read the connection through the tee - their reads would fail with "closed
// pipe" and the bytes just read would be lost for both sides.
func c01TeeKeepsPipeOpen(c *Ctx, r *Report, rule string) {
	r.rule(rule, "tee: the handler itself (its body, deferred calls and closures run on return) never closes the writing end of the branch's pipe - next.Handle may be the router's continuation, which returns while later routes still read through the tee; the pipe is closed by the reading side at io.EOF (C01.R13)", 1)
	fnName := "modules/l4tee.(*Handler).Handle"
	fn := c.Fn(fnName)
	if fn == nil {
		r.bad(rule, fnName, "exists", "-", "function not found")
		return
	}
	isClose := func(ci ssa.CallInstruction) bool {
		id := calleeID(ci)
		return id == "(*io.PipeWriter).Close" || id == "(*io.PipeWriter).CloseWithError"
	}
	bad := ""
	var scan func(f *ssa.Function, depth int)
	scan = func(f *ssa.Function, depth int) {
		for _, ci := range callsIn(f) {
			if _, isGo := ci.(*ssa.Go); isGo {
				continue // (a goroutine that outlives Handle is not "when next.Handle returns")
			}
			if isClose(ci) && bad == "" {
				bad = c.ipos(ci) + " in " + fname(f)
			}
			if depth < 2 {
				if cl := closureOf(ci.Common().Value); cl != nil && cl.Pkg == fn.Pkg && (cl.Parent() != nil || !strings.Contains(fname(cl), "nextConn")) && cl != f {
					scan(cl, depth+1)
				}
			}
		}
	}
	scan(fn, 0)
	r.check(bad == "", rule, fnName, "pipe left to the reading side", c.pos(fn.Pos()), "no close of the pipe writer in the handler",
		"the handler closes the branch's pipe writer at "+bad+": when next is the router's continuation (tee as the last handler of a route that is not terminal) it has returned long before later routes read the connection - their reads through the tee fail with io.ErrClosedPipe, the bytes read are lost and the branch sees the end of the stream at once")
}

// c04PreparedRequest: request matchers of caddyhttp take the replacer and the variable table out of the request's
// context with unchecked type assertions. The request the http matcher keeps for later http matchers of the same
// connection must therefore be the prepared one (caddyhttp.PrepareRequest's result): a bare request from
// http.ReadRequest makes the second matcher panic in the connection's goroutine.
func c04PreparedRequest(c *Ctx, r *Report, rule string) {
	r.rule(rule, "the request the http matcher stores for later matchers of the connection (SetVar \"http_request\") is the result of caddyhttp.PrepareRequest (request matchers assert the replacer and the variables out of its context without a test)", 1)
	n := 0
	for _, fn := range c.Funcs {
		if fn.Pkg == nil || short(fn.Pkg.Pkg.Path()) != "modules/l4http" {
			continue
		}
		for _, ci := range callsIn(fn) {
			if calleeID(ci) != "layer4.(*Connection).SetVar" || len(ci.Common().Args) < 3 {
				continue
			}
			if k, ok := constString(ci.Common().Args[1]); !ok || k != "http_request" {
				continue
			}
			n++
			prepared, other := false, ""
			for _, o := range origins(ci.Common().Args[2], sliceOpts{}) {
				switch {
				case o.Kind == "call" && strings.HasSuffix(o.Desc, "caddyhttp.PrepareRequest"):
					prepared = true
				case o.Kind == "call" || o.Kind == "param" || o.Kind == "field":
					other = o.Kind + " " + o.Desc
				}
			}
			r.check(prepared && other == "", rule, fname(fn), "SetVar http_request", c.ipos(ci), "the stored request is PrepareRequest's result",
				"the request stored for later matchers comes from "+other+", not (only) from caddyhttp.PrepareRequest: a second http matcher on the connection hands it to request matchers that assert the replacer out of its context - nil, a panic in the connection's goroutine")
		}
	}
	if n == 0 {
		r.bad(rule, "modules/l4http", "SetVar http_request", "-", "the http matcher's store of the parsed request was not found")
	}
}

// c07PlaceholdersFirst: l4.tls.server_name and l4.tls.version describe the hello that was read, whoever asks: they
// are set as soon as the hello is parsed, before any handshake sub-matcher is asked - a hello that a sub-matcher
// rejects is still the hello later routes and handlers name in their placeholders.
func c07PlaceholdersFirst(c *Ctx, r *Report, rule string) {
	r.rule(rule, "tls matcher: the placeholders l4.tls.server_name and l4.tls.version are set from the parsed hello on every path to the first handshake sub-matcher (they do not depend on the sub-matchers' verdicts)", 2)
	fnName := "modules/l4tls.(*MatchTLS).Match"
	fn := c.Fn(fnName)
	if fn == nil {
		r.bad(rule, fnName, "exists", "-", "function not found")
		return
	}
	var sub ssa.CallInstruction
	for _, ci := range callsIn(fn) {
		if cm := ci.Common(); cm.IsInvoke() && cm.Method.Name() == "Match" && strings.Contains(typeStr(cm.Value.Type()), "ConnectionMatcher") {
			sub = ci
		}
	}
	if sub == nil {
		r.bad(rule, fnName, "sub-matchers", c.pos(fn.Pos()), "undecided: the call of the handshake sub-matchers is not in the matcher itself")
		return
	}
	for _, key := range []string{"l4.tls.server_name", "l4.tls.version"} {
		isSet := func(in ssa.Instruction) bool {
			ci, ok := in.(ssa.CallInstruction)
			if !ok || !strings.HasSuffix(calleeID(ci), "Replacer).Set") || len(ci.Common().Args) < 2 {
				return false
			}
			k, ok := constString(ci.Common().Args[1])
			return ok && k == key
		}
		// a helper of the package that sets it on every path counts as the set
		isSetOrHelper := func(in ssa.Instruction) bool {
			if isSet(in) {
				return true
			}
			ci, ok := in.(ssa.CallInstruction)
			if !ok {
				return false
			}
			callee := ci.Common().StaticCallee()
			if callee == nil || callee.Pkg != fn.Pkg || len(callee.Blocks) == 0 {
				return false
			}
			return pathFromEntryAvoiding(callee, isReturn, isSet) == nil
		}
		skipped := pathFromEntryAvoiding(fn, func(in ssa.Instruction) bool { return in == sub.(ssa.Instruction) }, isSetOrHelper)
		r.check(skipped == nil, rule, fnName, key, c.ipos(sub), "set before the first sub-matcher is asked",
			fmt.Sprintf("the sub-matchers are reached without %s having been set: the placeholder then depends on their verdicts - for a hello that a configured sni/alpn filter rejects it stays empty, and a later route that proxies to {%s} dials nothing", key, key))
	}
}

// c09ServerOwnsClose: the connection a handler is given belongs to the server, which closes it when the chain has
// returned. The virtual connection of a UDP association is not made to be closed twice (its Close closes a channel):
// a handler that closes the connection it was given ends the process with "close of closed channel" when the server
// closes it again. Handlers close what they opened (upstream connections, pipes), never cx or what it wraps.
func c09ServerOwnsClose(c *Ctx, r *Report, rule string) {
	r.rule(rule, "no handler closes the connection it was given (Close on the *layer4.Connection parameter or on its Conn): the server owns it and closes it when the chain has returned - a second Close of a UDP association's virtual connection closes a closed channel and ends the process", 5)
	n := 0
	for _, fn := range sortedFuncs(c.reach(c.handlerRoots())) {
		if fn.Pkg == nil || !strings.HasPrefix(short(fn.Pkg.Pkg.Path()), "modules/") {
			continue
		}
		// the connection parameters of this function (closures: of the enclosing functions too)
		var conns []ssa.Value
		for f := fn; f != nil; f = f.Parent() {
			for _, p := range f.Params {
				if strings.HasSuffix(typeStr(p.Type()), "layer4.Connection") {
					conns = append(conns, p)
				}
			}
		}
		if len(conns) == 0 {
			continue
		}
		n++
		bad := ""
		for _, ci := range callsIn(fn) {
			cm := ci.Common()
			isClose := cm.IsInvoke() && cm.Method.Name() == "Close" || !cm.IsInvoke() && cm.StaticCallee() != nil && cm.StaticCallee().Name() == "Close" && cm.Signature().Recv() != nil
			if !isClose {
				continue
			}
			recv := cm.Value
			if !cm.IsInvoke() && len(cm.Args) > 0 {
				recv = cm.Args[0]
			}
			for _, o := range origins(recv, sliceOpts{}) {
				switch o.Kind {
				case "param":
					for _, p := range conns {
						if o.V == p {
							bad = c.ipos(ci)
						}
					}
				case "field":
					if o.Desc == "layer4.Connection.Conn" {
						if ld, ok := o.V.(*ssa.UnOp); ok {
							if base, _, _, ok := fieldAddr(ld.X); ok {
								for _, p := range conns {
									for _, o2 := range origins(base, sliceOpts{}) {
										if o2.V == p {
											bad = c.ipos(ci)
										}
									}
								}
							}
						}
					}
				}
			}
		}
		r.check(bad == "", rule, fname(fn), "leaves the given connection open", c.pos(fn.Pos()), "no Close on the connection parameter or its Conn",
			"the handler closes the connection it was given at "+bad+": the server closes it again when the chain returns - for a UDP association the second Close closes a closed channel, a panic that ends the whole process")
	}
	if n == 0 {
		r.bad(rule, "modules", "handlers", "-", "no handler code with a connection parameter found")
	}
}

// c13StatesAppended: pipeConnection exposes the LAST element of the connection's tls_connection_states as the state
// of the delivered connection (it reads the variable by its name: the packages cannot import each other). The tls
// handler must therefore add each termination at the END of the list, so that the last element is the innermost one -
// the session whose plaintext the consumer reads.
func c13StatesAppended(c *Ctx, r *Report, rule string) {
	r.rule(rule, "tls handler: the state of a new termination is appended at the end of tls_connection_states (the stored list is append(<the list read from the variable>, state)): the listener wrapper exposes the last element, which must be the innermost session", 1)
	n := 0
	for _, fn := range c.Funcs {
		if fn.Pkg == nil || short(fn.Pkg.Pkg.Path()) != "modules/l4tls" {
			continue
		}
		for _, ci := range callsIn(fn) {
			if calleeID(ci) != "layer4.(*Connection).SetVar" || len(ci.Common().Args) < 3 {
				continue
			}
			if k, ok := constString(ci.Common().Args[1]); !ok || k != "tls_connection_states" {
				continue
			}
			n++
			good, detail := false, "the stored value is not the result of an append"
			for _, o := range origins(ci.Common().Args[2], sliceOpts{}) {
				call, ok := o.V.(*ssa.Call)
				if !ok || calleeID(call) != "builtin append" || len(call.Call.Args) != 2 {
					continue
				}
				// first argument: the list read from the variable; second: the new state(s)
				fromVar := false
				// (the list may be read through a helper of the package: followed into its return statements)
				for _, o2 := range append(origins(call.Call.Args[0], sliceOpts{}), c.originsIP(fn, call.Call.Args[0], 2)...) {
					if o2.Kind == "call" && strings.HasSuffix(o2.Desc, "Connection).GetVar") {
						fromVar = true
					}
				}
				for _, o2 := range origins(call.Call.Args[0], sliceOpts{}) {
					if o2.Kind == "call" && o2.Desc == "builtin append" && o2.V != ssa.Value(call) {
						fromVar = false // the list was already rebuilt by another append (new state first?)
					}
				}
				varInNew := false
				for _, o2 := range c.originsIP(fn, call.Call.Args[1], 2) {
					if o2.Kind == "call" && strings.HasSuffix(o2.Desc, "Connection).GetVar") {
						varInNew = true
					}
				}
				if fromVar && !varInNew {
					good = true
				} else {
					detail = "the list read from the variable is not the first argument of the append (the new state is put in front of the earlier ones)"
				}
			}
			r.check(good, rule, fname(fn), "SetVar tls_connection_states", c.ipos(ci), "append(<old list>, <new state>)",
				detail+": with TLS terminated twice the listener wrapper, which exposes the last element, hands the consumer the plaintext of the inner session with the state (server name, ALPN, certificates) of the outer one")
		}
	}
	if n == 0 {
		r.bad(rule, "modules/l4tls", "SetVar tls_connection_states", "-", "the tls handler's store of the connection states was not found")
	}
}

// c09SourceAddress: net.PacketConn.ReadFrom may return a nil address - a unixgram socket that is not bound to a path
// has none (net.(*UnixConn).ReadFrom returns an untyped nil then). The UDP server loop keys its associations by the
// source address: every method call on the address of a received packet must come after a test that it is not nil,
// or one anonymous datagram ends the whole server process.
func c09SourceAddress(c *Ctx, r *Report, rule string) {
	r.rule(rule, "the source address of a received datagram (the address result of ReadFrom, kept in the packet record) is tested for nil before any method is called on it: a unixgram peer that is not bound to a path has no address, and a call on the nil interface ends the server loop", 1)
	// the record fields that carry ReadFrom's address
	type fkey struct{ sn, f string }
	carriers := map[fkey]string{}
	for _, fn := range c.Funcs {
		if fn.Pkg == nil || short(fn.Pkg.Pkg.Path()) != "layer4" {
			continue
		}
		for _, b := range fn.Blocks {
			for _, in := range b.Instrs {
				st, ok := in.(*ssa.Store)
				if !ok {
					continue
				}
				_, sn, f, ok := fieldAddr(st.Addr)
				if !ok {
					continue
				}
				for _, o := range origins(st.Val, sliceOpts{}) {
					if call, ok := o.V.(*ssa.Call); ok && call.Call.IsInvoke() && call.Call.Method.Name() == "ReadFrom" {
						carriers[fkey{sn, f}] = c.ipos(st)
					}
				}
			}
		}
	}
	if len(carriers) == 0 {
		r.bad(rule, "layer4", "packet record", "-", "undecided: no record field that keeps the address result of ReadFrom was found")
		return
	}
	n := 0
	for _, fn := range c.Funcs {
		if fn.Pkg == nil || short(fn.Pkg.Pkg.Path()) != "layer4" {
			continue
		}
		for _, ci := range callsIn(fn) {
			cm := ci.Common()
			if !cm.IsInvoke() {
				continue
			}
			ld, ok := cm.Value.(*ssa.UnOp)
			var root ssa.Value
			var chain string
			if ok && ld.Op == token.MUL {
				root, chain = fieldChain(ld.X)
			} else if fv, ok := cm.Value.(*ssa.Field); ok {
				_, sn, f, _ := fieldAddr(fv)
				root, chain = fv.X, sn+"."+f+"/"
			}
			if root == nil || chain == "" {
				continue
			}
			last := strings.Split(strings.TrimSuffix(chain, "/"), "/")
			lf := last[len(last)-1]
			i := strings.LastIndex(lf, ".")
			if i < 0 {
				continue
			}
			if _, isCarrier := carriers[fkey{lf[:i], lf[i+1:]}]; !isCarrier {
				continue
			}
			n++
			guarded := false
			for _, cond := range edgeConds(ci.Block()) {
				y, neq, ok := nilCheck(cond.V)
				if !ok {
					continue
				}
				var r2 ssa.Value
				var c2 string
				if l2, ok := y.(*ssa.UnOp); ok && l2.Op == token.MUL {
					r2, c2 = fieldChain(l2.X)
				} else if f2, ok := y.(*ssa.Field); ok {
					_, sn, f, _ := fieldAddr(f2)
					r2, c2 = f2.X, sn+"."+f+"/"
				}
				sameRoot := r2 == root
				if !sameRoot && r2 != nil {
					// two loads of one local variable
					if a, ok := r2.(*ssa.UnOp); ok {
						if b, ok := root.(*ssa.UnOp); ok && a.X == b.X {
							sameRoot = true
						}
					}
				}
				if sameRoot && c2 == chain && ((neq && cond.Truth) || (!neq && !cond.Truth)) {
					guarded = true
				}
			}
			r.check(guarded, rule, fname(fn), lf+"."+cm.Method.Name()+"()", c.ipos(ci), "called behind a test that the address is not nil",
				"a method is called on the source address of a received datagram without a test for nil (the field keeps ReadFrom's address result, stored at "+carriers[fkey{lf[:i], lf[i+1:]}]+"): one datagram from a unixgram socket that is not bound to a path ends the server loop - and the process - with a nil dereference")
		}
	}
	// the address handed to a helper of the package: a method called on that parameter is a call on the address; the
	// test for nil stands in the helper (on the parameter) or in front of every call that passes the record's field
	for _, fn := range c.Funcs {
		if fn.Pkg == nil || short(fn.Pkg.Pkg.Path()) != "layer4" {
			continue
		}
		for _, ci := range callsIn(fn) {
			cm := ci.Common()
			if !cm.IsInvoke() {
				continue
			}
			pr, ok := cm.Value.(*ssa.Parameter)
			if !ok {
				continue
			}
			pi := paramIndex(fn, pr)
			sites, _ := c.callSitesOf(fn)
			if pi < 0 || len(sites) == 0 {
				continue
			}
			inCallee := false
			for _, cond := range edgeConds(ci.Block()) {
				if y, neq, ok := nilCheck(cond.V); ok && y == ssa.Value(pr) && ((neq && cond.Truth) || (!neq && !cond.Truth)) {
					inCallee = true
				}
			}
			for _, site := range sites {
				args := site.Common().Args
				if pi >= len(args) {
					continue
				}
				var root ssa.Value
				var chain string
				if ld, ok := args[pi].(*ssa.UnOp); ok && ld.Op == token.MUL {
					root, chain = fieldChain(ld.X)
				} else if fv, ok := args[pi].(*ssa.Field); ok {
					_, sn, f, _ := fieldAddr(fv)
					root, chain = fv.X, sn+"."+f+"/"
				}
				if root == nil || chain == "" {
					continue
				}
				last := strings.Split(strings.TrimSuffix(chain, "/"), "/")
				lf := last[len(last)-1]
				i := strings.LastIndex(lf, ".")
				if i < 0 {
					continue
				}
				if _, isCarrier := carriers[fkey{lf[:i], lf[i+1:]}]; !isCarrier {
					continue
				}
				n++
				guarded := inCallee
				for _, cond := range edgeConds(site.Block()) {
					y, neq, ok := nilCheck(cond.V)
					if !ok {
						continue
					}
					var r2 ssa.Value
					var c2 string
					if l2, ok := y.(*ssa.UnOp); ok && l2.Op == token.MUL {
						r2, c2 = fieldChain(l2.X)
					} else if f2, ok := y.(*ssa.Field); ok {
						_, sn, f, _ := fieldAddr(f2)
						r2, c2 = f2.X, sn+"."+f+"/"
					}
					sameRoot := r2 == root
					if !sameRoot && r2 != nil {
						if a, ok := r2.(*ssa.UnOp); ok {
							if b, ok := root.(*ssa.UnOp); ok && a.X == b.X {
								sameRoot = true
							}
						}
					}
					if sameRoot && c2 == chain && ((neq && cond.Truth) || (!neq && !cond.Truth)) {
						guarded = true
					}
				}
				r.check(guarded, rule, fname(fn), lf+" -> "+pr.Name()+"."+cm.Method.Name()+"()", c.ipos(ci), "called behind a test that the address is not nil",
					"a method is called on the source address of a received datagram (handed to "+fname(fn)+" at "+c.ipos(site)+") without a test for nil: one datagram from a unixgram socket that is not bound to a path ends the server loop - and the process - with a nil dereference")
			}
		}
	}
	if n == 0 {
		r.bad(rule, "layer4", "uses of the source address", "-", "undecided: no method call on a received packet's address found")
	}
}

// c09EmptyDatagram: an empty datagram is a datagram. bytes.Reader.Read on zero bytes reports io.EOF; if the virtual
// connection's Read hands that on, the association's handler sees the end of the stream, returns, and the datagrams
// queued behind the empty one are dropped when the connection is closed. Read is evaluated on a queue that delivers an
// empty datagram first: the only ways to an end-of-stream result are the closed channel and the idle timer.
func c09EmptyDatagram(c *Ctx, r *Report, rule string) {
	r.rule(rule, "packetConn.Read, evaluated on a queue whose next datagram is empty (bytes.Reader.Read modelled faithfully: io.EOF on zero bytes): no path returns an error or end-of-stream because of the empty datagram - only the closed channel, the idle timer and the deadline end a Read without data", 1)
	fnName := "layer4.(*packetConn).Read"
	fn := c.Fn(fnName)
	if fn == nil {
		r.bad(rule, fnName, "exists", "-", "function not found")
		return
	}
	sc := &Scenario{Name: "empty datagram first", MaxVisit: 3,
		Heap:   map[string]SV{"global:io.EOF": {K: "ref", Known: true, Desc: "global:io.EOF"}},
		Params: map[string]SV{"recv": symRef("recv", false), "p0": symSlice("b", 8)},
		Inline: func(f *ssa.Function) bool { return strings.HasPrefix(fname(f), "layer4.") && f != fn },
	}
	sc.Call = func(callee string, args []SV, ev *symEval, st *symState) (SV, bool) {
		switch callee {
		case "bytes.NewReader":
			if args[0].Len == nil || !args[0].Len.Known {
				return SV{}, false
			}
			id := ev.fresh("reader")
			st.heap["remaining:"+id] = *args[0].Len
			return SV{K: "ref", Known: true, Desc: id}, true
		case "(*bytes.Reader).Read":
			rem, ok := st.heap["remaining:"+args[0].Desc]
			if !ok || args[1].Len == nil || !args[1].Len.Known {
				return SV{}, false
			}
			if rem.N == 0 {
				return SV{K: "tuple", Desc: "rd", Elems: []SV{symInt(0), {K: "ref", Known: true, Desc: "global:io.EOF"}}}, true
			}
			n := rem.N
			if args[1].Len.N < n {
				n = args[1].Len.N
			}
			st.heap["remaining:"+args[0].Desc] = symInt(rem.N - n)
			return SV{K: "tuple", Desc: "rd", Elems: []SV{symInt(n), symNil()}}, true
		case "(*bytes.Reader).Len":
			if v, ok := st.heap["remaining:"+args[0].Desc]; ok {
				return v, true
			}
		case "layer4.isDeadlineExceeded":
			return symBool(false), true
		}
		return SV{}, false
	}
	sc.Heap["recv.lastPacket"] = symNil()
	sc.Heap["recv.lastBuf"] = symNil()
	sc.Heap["recv.idleTimer"] = symRef("idle", false)
	sc.Heap["recv.deadlineTimer"] = symRef("dl", false)
	sc.Heap["pkt.pooledBuf"] = symSliceCap("pkt.pooledBuf", 9000, 9000)
	sc.Heap["pkt.n"] = symInt(0)
	sc.Recv = func(ch SV) (SV, bool) {
		if strings.HasSuffix(ch.Desc, ".readCh") {
			return symRef("pkt", false), true
		}
		return SV{}, false
	}
	paths, err := evalPaths(fn, sc)
	if err != nil || len(paths) == 0 {
		r.bad(rule, fnName, sc.Name, c.pos(fn.Pos()), fmt.Sprintf("undecided: %v", err))
		return
	}
	var problems []string
	judged := 0
	for _, p := range paths {
		if p.Outcome != "return" || len(p.Ret) != 2 {
			continue
		}
		fired := selectFired(p)
		onlyQueue := len(fired) > 0
		for _, f := range fired {
			if !strings.Contains(f, "readCh") {
				onlyQueue = false
			}
		}
		if !onlyQueue {
			continue // closed, idle timer or deadline fired: their results are judged by C09.R7 / C05.R13
		}
		judged++
		if !(p.Ret[1].Known && p.Ret[1].Nil) {
			problems = append(problems, "after receiving only the empty datagram Read returns ("+p.Ret[0].Desc+", "+p.Ret[1].Desc+"): the handler takes it for the end of the client's stream and returns; the datagrams queued behind the empty one are dropped when the connection is closed")
		}
	}
	r.check(len(problems) == 0, rule, fnName, sc.Name, c.pos(fn.Pos()), fmt.Sprintf("%d path(s), %d of them end after the queue alone fired: none reports an error", len(paths), judged), strings.Join(dedup(problems), "; "))
}

// c09CloseIdentity: a virtual connection that timed out notifies the server loop twice - when its Read gives up and
// when it is closed - and the client may have been given a new connection in between. A notification that names only
// the address makes the loop forget that new connection: the client's next datagram starts a third one while the second
// is still being served, and its datagrams are split over two live connections. The entry is removed only if the
// table still holds the very connection that notified.
func c09CloseIdentity(c *Ctx, r *Report, rule string) {
	r.rule(rule, "UDP association table: every delete is guarded by a comparison of the table's entry with the connection that sent the close notification (the notification carries the connection, not only its address): a late second notification of a timed-out connection does not remove the connection the client has been given since", 1)
	fnName := "layer4.(*Server).servePacket"
	fn := c.Fn(fnName)
	if fn == nil {
		r.bad(rule, fnName, "exists", "-", "function not found")
		return
	}
	n := 0
	// one table: the same value, or two loads of the same variable or field
	sameTable := func(a, b ssa.Value) bool {
		if a == b {
			return true
		}
		la, ok1 := a.(*ssa.UnOp)
		lb, ok2 := b.(*ssa.UnOp)
		if !ok1 || !ok2 || la.Op != token.MUL || lb.Op != token.MUL {
			return false
		}
		if la.X == lb.X {
			return true
		}
		b1, s1, f1, k1 := fieldAddr(la.X)
		b2, s2, f2, k2 := fieldAddr(lb.X)
		return k1 && k2 && s1 == s2 && f1 == f2 && b1 == b2
	}
	var cands []*ssa.Function
	for g := range c.reachSync(fn) {
		if g.Pkg == fn.Pkg {
			cands = append(cands, g)
		}
	}
	sort.Slice(cands, func(i, j int) bool { return fname(cands[i]) < fname(cands[j]) })
	var allCalls []ssa.CallInstruction
	for _, g := range cands {
		allCalls = append(allCalls, callsIn(g)...)
	}
	for _, ci := range allCalls {
		call, ok := ci.(*ssa.Call)
		if !ok || calleeID(call) != "builtin delete" || len(call.Call.Args) != 2 {
			continue
		}
		if !strings.HasSuffix(typeStr(call.Call.Args[0].Type()), "layer4.packetConn") {
			continue // another map
		}
		n++
		m := call.Call.Args[0]
		guarded := false
		for _, cond := range edgeConds(call.Block()) {
			bo, ok := cond.V.(*ssa.BinOp)
			if !ok || !((bo.Op == token.EQL && cond.Truth) || (bo.Op == token.NEQ && !cond.Truth)) {
				continue // the edge on which the two are the same connection
			}
			for _, pr := range [][2]ssa.Value{{bo.X, bo.Y}, {bo.Y, bo.X}} {
				entry, other := pr[0], pr[1]
				isEntry := false
				switch x := entry.(type) {
				case *ssa.Lookup:
					isEntry = sameTable(x.X, m)
				case *ssa.Extract:
					if lk, ok := x.Tuple.(*ssa.Lookup); ok && x.Index == 0 {
						isEntry = sameTable(lk.X, m)
					}
				}
				if !isEntry || !strings.HasSuffix(typeStr(other.Type()), "layer4.packetConn") {
					continue
				}
				guarded = true
			}
		}
		r.check(guarded, rule, fnName, fmt.Sprintf("delete#%d", n), c.ipos(call), "the entry is removed only if it is the connection that notified",
			"the table entry is removed without comparing it with the connection that sent the notification: the second notification of a connection that timed out (Read gives up, later Close) removes the connection the client has been given in between - its next datagram starts a third connection while the second is still being served")
	}
	if n == 0 {
		r.bad(rule, fnName, "delete", c.pos(fn.Pos()), "undecided: no delete from the association table found in the server loop")
	}
}

// c09DatagramNotDropped: the server loop takes a datagram from the reader's queue and owns it - and its pooled buffer -
// from then on. On every path from there to the next round of the loop the datagram is handed to an association's queue
// or its buffer is given back to the pool; a path that does neither (another case of the hand-over select that just
// goes on) loses a datagram of the client's stream without a trace and leaks the buffer.
func c09DatagramNotDropped(c *Ctx, r *Report, rule string) {
	r.rule(rule, "UDP server loop: on every path from the hand-over select to the next round of the loop the datagram in hand is queued (the send to the association's queue fired) or its buffer is returned to the pool - no case of the select just goes on with the datagram dropped", 1)
	fnName := "layer4.(*Server).servePacket"
	fn := c.Fn(fnName)
	if fn == nil {
		r.bad(rule, fnName, "exists", "-", "function not found")
		return
	}
	n := 0
	// the loop itself and the functions of the package it calls in place (the hand-over may be a method of the
	// association: there, returning to the caller is going on to the next round)
	var cands []*ssa.Function
	for g := range c.reachSync(fn) {
		if g.Pkg == fn.Pkg {
			cands = append(cands, g)
		}
	}
	sort.Slice(cands, func(i, j int) bool { return fname(cands[i]) < fname(cands[j]) })
	for _, g := range cands {
		for _, b := range g.Blocks {
			for _, in := range b.Instrs {
				sel, ok := in.(*ssa.Select)
				if !ok {
					continue
				}
				sendIdx := -1
				for i, st := range sel.States {
					if st.Dir == types.SendOnly {
						if _, _, f, ok := fieldAddr(func() ssa.Value {
							if ld, ok := st.Chan.(*ssa.UnOp); ok {
								return ld.X
							}
							return st.Chan
						}()); ok && f == "readCh" {
							sendIdx = i
						}
					}
				}
				if sendIdx < 0 {
					continue // not the hand-over select
				}
				// the case bodies: follow the index tests behind the select
				var idx ssa.Value
				for _, ref := range *sel.Referrers() {
					if ex, ok := ref.(*ssa.Extract); ok && ex.Index == 0 {
						idx = ex
					}
				}
				if idx == nil {
					r.bad(rule, fnName, "hand-over select", c.ipos(sel), "undecided: the select's case index is not used")
					continue
				}
				bodies := map[int]*ssa.BasicBlock{}
				cur := sel.Block()
				for steps := 0; steps < 8 && cur != nil; steps++ {
					ifi, ok := cur.Instrs[len(cur.Instrs)-1].(*ssa.If)
					if !ok {
						break
					}
					bo, ok := ifi.Cond.(*ssa.BinOp)
					if !ok || bo.Op != token.EQL || bo.X != idx {
						break
					}
					k, ok := constInt(bo.Y)
					if !ok {
						break
					}
					bodies[int(k)] = cur.Succs[0]
					cur = cur.Succs[1]
				}
				if _, has := bodies[len(sel.States)-1]; !has && cur != nil {
					bodies[len(sel.States)-1] = cur // the last case is the final else
				}
				isPut := func(x ssa.Instruction) bool {
					ci, ok := x.(ssa.CallInstruction)
					if !ok {
						return false
					}
					kind, _, _ := poolOp(ci)
					return kind == "put"
				}
				// the next round: any block that receives from the reader's queue again (the outer select) - found as a
				// select other than this one
				nextRound := func(x ssa.Instruction) bool {
					s2, ok := x.(*ssa.Select)
					return ok && s2 != sel
				}
				for k, st := range sel.States {
					if k == sendIdx {
						continue
					}
					n++
					body := bodies[k]
					name := fmt.Sprintf("hand-over select, case %d", k)
					_ = st
					if body == nil {
						r.bad(rule, fnName, name, c.ipos(sel), "undecided: the body of this case was not found")
						continue
					}
					var leak ssa.Instruction
					if len(body.Instrs) > 0 {
						seen := map[*ssa.BasicBlock]bool{body: true}
						work := []*ssa.BasicBlock{body}
						for len(work) > 0 && leak == nil {
							bb := work[len(work)-1]
							work = work[:len(work)-1]
							blocked := false
							for _, x := range bb.Instrs {
								if isPut(x) {
									blocked = true
									break
								}
								if nextRound(x) || isReturn(x) {
									leak = x
									break
								}
							}
							if blocked || leak != nil {
								continue
							}
							for _, su := range bb.Succs {
								if !seen[su] {
									seen[su] = true
									work = append(work, su)
								}
							}
						}
					}
					r.check(leak == nil, rule, fnName, name, c.ipos(sel), "the datagram's buffer is returned to the pool before the loop goes on",
						"this case of the hand-over select goes on to the next round of the loop without queueing the datagram in hand and without returning its buffer: the datagram disappears from its client's stream (and its buffer is never reused)")
				}
			}
		}
	}
	if n == 0 {
		r.bad(rule, fnName, "hand-over select", c.pos(fn.Pos()), "undecided: the select that hands a datagram to its association was not found")
	}
}

// c04HelloConn: the handshake sub-matchers of the tls app (remote_ip, local_ip ...) call hello.Conn.RemoteAddr()
// without a test. The hello the tls matcher hands them is its own parse result, whose Conn is nil until the matcher
// sets it: it is set on every path to the first sub-matcher - also for a hello whose parse ended early.
func c04HelloConn(c *Ctx, r *Report, rule string) {
	r.rule(rule, "tls matcher: ClientHelloInfo.Conn is assigned on every path to the first handshake sub-matcher (sub-matchers of the tls app call hello.Conn.RemoteAddr() without a test; a parse that ended early still yields a hello they are asked about)", 1)
	fnName := "modules/l4tls.(*MatchTLS).Match"
	fn := c.Fn(fnName)
	if fn == nil {
		r.bad(rule, fnName, "exists", "-", "function not found")
		return
	}
	var sub ssa.CallInstruction
	for _, ci := range callsIn(fn) {
		if cm := ci.Common(); cm.IsInvoke() && cm.Method.Name() == "Match" && strings.Contains(typeStr(cm.Value.Type()), "ConnectionMatcher") {
			sub = ci
		}
	}
	if sub == nil {
		r.bad(rule, fnName, "sub-matchers", c.pos(fn.Pos()), "undecided: the call of the handshake sub-matchers is not in the matcher itself")
		return
	}
	isSet := func(in ssa.Instruction) bool {
		st, ok := in.(*ssa.Store)
		if !ok {
			return false
		}
		_, sn, f, ok := fieldAddr(st.Addr)
		return ok && f == "Conn" && strings.HasSuffix(sn, "ClientHelloInfo") && !isNilConst(st.Val)
	}
	isSetOrHelper := func(in ssa.Instruction) bool {
		if isSet(in) {
			return true
		}
		ci, ok := in.(ssa.CallInstruction)
		if !ok {
			return false
		}
		callee := ci.Common().StaticCallee()
		if callee == nil || callee.Pkg != fn.Pkg || len(callee.Blocks) == 0 {
			return false
		}
		return pathFromEntryAvoiding(callee, isReturn, isSet) == nil
	}
	skipped := pathFromEntryAvoiding(fn, func(in ssa.Instruction) bool { return in == sub.(ssa.Instruction) }, isSetOrHelper)
	r.check(skipped == nil, rule, fnName, "ClientHelloInfo.Conn", c.ipos(sub), "assigned before the first sub-matcher is asked",
		"the sub-matchers are reached on a path on which the hello's Conn was not assigned (a helper that assigns it has a way out that does not): a nested remote_ip or local_ip matcher calls hello.Conn.RemoteAddr() on nil - a panic in the connection's goroutine")
}

// c09UDPPoolLength: the socket reader hands whatever udpBufPool.Get returns straight to ReadFrom and relies on every
// pooled slice having its full length. What is put into that pool is therefore a buffer as it came out of it (the
// packet's pooledBuf), never a resliced view: a slice cut to length 0 makes the reader receive an empty datagram for
// whichever client sends next, and its association ends.
func c09UDPPoolLength(c *Ctx, r *Report, rule string) {
	r.rule(rule, "every value put into the datagram buffer pool is a buffer as it was taken out (a packet's pooledBuf or the Get result itself), never a resliced view: the socket reader passes what it gets from the pool to ReadFrom as it is", 4)
	n := 0
	for _, fn := range c.Funcs {
		if fn.Pkg == nil || short(fn.Pkg.Pkg.Path()) != "layer4" {
			continue
		}
		k := 0
		for _, ci := range callsIn(fn) {
			if calleeID(ci) != "(*sync.Pool).Put" || len(ci.Common().Args) != 2 {
				continue
			}
			isUDP := false
			for _, o := range origins(ci.Common().Args[0], sliceOpts{}) {
				if o.Kind == "global" && strings.HasSuffix(o.Desc, ".udpBufPool") {
					isUDP = true
				}
			}
			if !isUDP {
				continue
			}
			n++
			k++
			resliced := ""
			var walk func(v ssa.Value, d int)
			seen := map[ssa.Value]bool{}
			walk = func(v ssa.Value, d int) {
				if v == nil || seen[v] || d > 8 {
					return
				}
				seen[v] = true
				switch x := stripBoxing(v).(type) {
				case *ssa.Slice:
					resliced = c.ipos(x)
				case *ssa.Phi:
					for _, e := range x.Edges {
						walk(e, d+1)
					}
				case *ssa.UnOp:
					if al, ok := x.X.(*ssa.Alloc); ok {
						for _, sv := range storesToDeep(al) {
							walk(sv, d+1)
						}
					}
				}
			}
			walk(ci.Common().Args[1], 0)
			r.check(resliced == "", rule, fname(fn), fmt.Sprintf("udpBufPool.Put#%d", k), c.ipos(ci), "puts the buffer back as it was taken out",
				"what is put into the datagram buffer pool here was resliced at "+resliced+": the socket reader will hand a slice of that length to ReadFrom - the next datagram of some client is cut short (to nothing, for length 0) and its association ends")
		}
	}
	if n == 0 {
		r.bad(rule, "layer4", "udpBufPool.Put", "-", "no Put into the datagram buffer pool found")
	}
}
