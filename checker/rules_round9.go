package main

import (
	"fmt"
	"strings"

	"golang.org/x/tools/go/ssa"
)

// c01TeeKeepsPipeOpen: the branch of a tee sees the end of the stream when the reading side (nextConn.Read) meets
// io.EOF. The tee handler itself must not close the pipe when next.Handle returns: when the tee is the last handler
// of a route that is not terminal, next is the router's continuation, which returns at once while later routes (or
// the wrapped listener's consumer) still read the connection through the tee - their reads would fail with "closed
// pipe" and the bytes just read would be lost for both sides.
func c01TeeKeepsPipeOpen(c *Ctx, r *Report, rule string) {
	r.rule(rule, "tee: the handler itself (its body, deferred calls and closures run on return) never closes the writing end of the branch's pipe - next.Handle may be the router's continuation, which returns while later routes still read through the tee; the pipe is closed by the reading side at io.EOF (C01.R13)", 1)
	fnName := "modules/l4tee.(*Handler).Handle"
	fn := c.Fn(fnName)
	if fn == nil {
		r.bad(rule, fnName, "exists", "-", "function not found")
		return
	}
	isClose := func(ci ssa.CallInstruction) bool {
		id := calleeID(ci)
		return id == "(*io.PipeWriter).Close" || id == "(*io.PipeWriter).CloseWithError"
	}
	bad := ""
	var scan func(f *ssa.Function, depth int)
	scan = func(f *ssa.Function, depth int) {
		for _, ci := range callsIn(f) {
			if _, isGo := ci.(*ssa.Go); isGo {
				continue // (a goroutine that outlives Handle is not "when next.Handle returns")
			}
			if isClose(ci) && bad == "" {
				bad = c.ipos(ci) + " in " + fname(f)
			}
			if depth < 2 {
				if cl := closureOf(ci.Common().Value); cl != nil && cl.Pkg == fn.Pkg && (cl.Parent() != nil || !strings.Contains(fname(cl), "nextConn")) && cl != f {
					scan(cl, depth+1)
				}
			}
		}
	}
	scan(fn, 0)
	r.check(bad == "", rule, fnName, "pipe left to the reading side", c.pos(fn.Pos()), "no close of the pipe writer in the handler",
		"the handler closes the branch's pipe writer at "+bad+": when next is the router's continuation (tee as the last handler of a route that is not terminal) it has returned long before later routes read the connection - their reads through the tee fail with io.ErrClosedPipe, the bytes read are lost and the branch sees the end of the stream at once")
}

// c04PreparedRequest: request matchers of caddyhttp take the replacer and the variable table out of the request's
// context with unchecked type assertions. The request the http matcher keeps for later http matchers of the same
// connection must therefore be the prepared one (caddyhttp.PrepareRequest's result): a bare request from
// http.ReadRequest makes the second matcher panic in the connection's goroutine.
func c04PreparedRequest(c *Ctx, r *Report, rule string) {
	r.rule(rule, "the request the http matcher stores for later matchers of the connection (SetVar \"http_request\") is the result of caddyhttp.PrepareRequest (request matchers assert the replacer and the variables out of its context without a test)", 1)
	n := 0
	for _, fn := range c.Funcs {
		if fn.Pkg == nil || short(fn.Pkg.Pkg.Path()) != "modules/l4http" {
			continue
		}
		for _, ci := range callsIn(fn) {
			if calleeID(ci) != "layer4.(*Connection).SetVar" || len(ci.Common().Args) < 3 {
				continue
			}
			if k, ok := constString(ci.Common().Args[1]); !ok || k != "http_request" {
				continue
			}
			n++
			prepared, other := false, ""
			for _, o := range origins(ci.Common().Args[2], sliceOpts{}) {
				switch {
				case o.Kind == "call" && strings.HasSuffix(o.Desc, "caddyhttp.PrepareRequest"):
					prepared = true
				case o.Kind == "call" || o.Kind == "param" || o.Kind == "field":
					other = o.Kind + " " + o.Desc
				}
			}
			r.check(prepared && other == "", rule, fname(fn), "SetVar http_request", c.ipos(ci), "the stored request is PrepareRequest's result",
				"the request stored for later matchers comes from "+other+", not (only) from caddyhttp.PrepareRequest: a second http matcher on the connection hands it to request matchers that assert the replacer out of its context - nil, a panic in the connection's goroutine")
		}
	}
	if n == 0 {
		r.bad(rule, "modules/l4http", "SetVar http_request", "-", "the http matcher's store of the parsed request was not found")
	}
}

// c07PlaceholdersFirst: l4.tls.server_name and l4.tls.version describe the hello that was read, whoever asks: they
// are set as soon as the hello is parsed, before any handshake sub-matcher is asked - a hello that a sub-matcher
// rejects is still the hello later routes and handlers name in their placeholders.
func c07PlaceholdersFirst(c *Ctx, r *Report, rule string) {
	r.rule(rule, "tls matcher: the placeholders l4.tls.server_name and l4.tls.version are set from the parsed hello on every path to the first handshake sub-matcher (they do not depend on the sub-matchers' verdicts)", 2)
	fnName := "modules/l4tls.(*MatchTLS).Match"
	fn := c.Fn(fnName)
	if fn == nil {
		r.bad(rule, fnName, "exists", "-", "function not found")
		return
	}
	var sub ssa.CallInstruction
	for _, ci := range callsIn(fn) {
		if cm := ci.Common(); cm.IsInvoke() && cm.Method.Name() == "Match" && strings.Contains(typeStr(cm.Value.Type()), "ConnectionMatcher") {
			sub = ci
		}
	}
	if sub == nil {
		r.bad(rule, fnName, "sub-matchers", c.pos(fn.Pos()), "undecided: the call of the handshake sub-matchers is not in the matcher itself")
		return
	}
	for _, key := range []string{"l4.tls.server_name", "l4.tls.version"} {
		isSet := func(in ssa.Instruction) bool {
			ci, ok := in.(ssa.CallInstruction)
			if !ok || !strings.HasSuffix(calleeID(ci), "Replacer).Set") || len(ci.Common().Args) < 2 {
				return false
			}
			k, ok := constString(ci.Common().Args[1])
			return ok && k == key
		}
		// a helper of the package that sets it on every path counts as the set
		isSetOrHelper := func(in ssa.Instruction) bool {
			if isSet(in) {
				return true
			}
			ci, ok := in.(ssa.CallInstruction)
			if !ok {
				return false
			}
			callee := ci.Common().StaticCallee()
			if callee == nil || callee.Pkg != fn.Pkg || len(callee.Blocks) == 0 {
				return false
			}
			return pathFromEntryAvoiding(callee, isReturn, isSet) == nil
		}
		skipped := pathFromEntryAvoiding(fn, func(in ssa.Instruction) bool { return in == sub.(ssa.Instruction) }, isSetOrHelper)
		r.check(skipped == nil, rule, fnName, key, c.ipos(sub), "set before the first sub-matcher is asked",
			fmt.Sprintf("the sub-matchers are reached without %s having been set: the placeholder then depends on their verdicts - for a hello that a configured sni/alpn filter rejects it stays empty, and a later route that proxies to {%s} dials nothing", key, key))
	}
}

// c09ServerOwnsClose: the connection a handler is given belongs to the server, which closes it when the chain has
// returned. The virtual connection of a UDP association is not made to be closed twice (its Close closes a channel):
// a handler that closes the connection it was given ends the process with "close of closed channel" when the server
// closes it again. Handlers close what they opened (upstream connections, pipes), never cx or what it wraps.
func c09ServerOwnsClose(c *Ctx, r *Report, rule string) {
	r.rule(rule, "no handler closes the connection it was given (Close on the *layer4.Connection parameter or on its Conn): the server owns it and closes it when the chain has returned - a second Close of a UDP association's virtual connection closes a closed channel and ends the process", 5)
	n := 0
	for _, fn := range sortedFuncs(c.reach(c.handlerRoots())) {
		if fn.Pkg == nil || !strings.HasPrefix(short(fn.Pkg.Pkg.Path()), "modules/") {
			continue
		}
		// the connection parameters of this function (closures: of the enclosing functions too)
		var conns []ssa.Value
		for f := fn; f != nil; f = f.Parent() {
			for _, p := range f.Params {
				if strings.HasSuffix(typeStr(p.Type()), "layer4.Connection") {
					conns = append(conns, p)
				}
			}
		}
		if len(conns) == 0 {
			continue
		}
		n++
		bad := ""
		for _, ci := range callsIn(fn) {
			cm := ci.Common()
			isClose := cm.IsInvoke() && cm.Method.Name() == "Close" || !cm.IsInvoke() && cm.StaticCallee() != nil && cm.StaticCallee().Name() == "Close" && cm.Signature().Recv() != nil
			if !isClose {
				continue
			}
			recv := cm.Value
			if !cm.IsInvoke() && len(cm.Args) > 0 {
				recv = cm.Args[0]
			}
			for _, o := range origins(recv, sliceOpts{}) {
				switch o.Kind {
				case "param":
					for _, p := range conns {
						if o.V == p {
							bad = c.ipos(ci)
						}
					}
				case "field":
					if o.Desc == "layer4.Connection.Conn" {
						if ld, ok := o.V.(*ssa.UnOp); ok {
							if base, _, _, ok := fieldAddr(ld.X); ok {
								for _, p := range conns {
									for _, o2 := range origins(base, sliceOpts{}) {
										if o2.V == p {
											bad = c.ipos(ci)
										}
									}
								}
							}
						}
					}
				}
			}
		}
		r.check(bad == "", rule, fname(fn), "leaves the given connection open", c.pos(fn.Pos()), "no Close on the connection parameter or its Conn",
			"the handler closes the connection it was given at "+bad+": the server closes it again when the chain returns - for a UDP association the second Close closes a closed channel, a panic that ends the whole process")
	}
	if n == 0 {
		r.bad(rule, "modules", "handlers", "-", "no handler code with a connection parameter found")
	}
}

// c13StatesAppended: pipeConnection exposes the LAST element of the connection's tls_connection_states as the state
// of the delivered connection (it reads the variable by its name: the packages cannot import each other). The tls
// handler must therefore add each termination at the END of the list, so that the last element is the innermost one -
// the session whose plaintext the consumer reads.
func c13StatesAppended(c *Ctx, r *Report, rule string) {
	r.rule(rule, "tls handler: the state of a new termination is appended at the end of tls_connection_states (the stored list is append(<the list read from the variable>, state)): the listener wrapper exposes the last element, which must be the innermost session", 1)
	n := 0
	for _, fn := range c.Funcs {
		if fn.Pkg == nil || short(fn.Pkg.Pkg.Path()) != "modules/l4tls" {
			continue
		}
		for _, ci := range callsIn(fn) {
			if calleeID(ci) != "layer4.(*Connection).SetVar" || len(ci.Common().Args) < 3 {
				continue
			}
			if k, ok := constString(ci.Common().Args[1]); !ok || k != "tls_connection_states" {
				continue
			}
			n++
			good, detail := false, "the stored value is not the result of an append"
			for _, o := range origins(ci.Common().Args[2], sliceOpts{}) {
				call, ok := o.V.(*ssa.Call)
				if !ok || calleeID(call) != "builtin append" || len(call.Call.Args) != 2 {
					continue
				}
				// first argument: the list read from the variable; second: the new state(s)
				fromVar := false
				for _, o2 := range origins(call.Call.Args[0], sliceOpts{}) {
					if o2.Kind == "call" && strings.HasSuffix(o2.Desc, "Connection).GetVar") {
						fromVar = true
					}
					if o2.Kind == "call" && o2.Desc == "builtin append" && o2.V != ssa.Value(call) {
						fromVar = false
					}
				}
				varInNew := false
				for _, o2 := range origins(call.Call.Args[1], sliceOpts{}) {
					if o2.Kind == "call" && strings.HasSuffix(o2.Desc, "Connection).GetVar") {
						varInNew = true
					}
				}
				if fromVar && !varInNew {
					good = true
				} else {
					detail = "the list read from the variable is not the first argument of the append (the new state is put in front of the earlier ones)"
				}
			}
			r.check(good, rule, fname(fn), "SetVar tls_connection_states", c.ipos(ci), "append(<old list>, <new state>)",
				detail+": with TLS terminated twice the listener wrapper, which exposes the last element, hands the consumer the plaintext of the inner session with the state (server name, ALPN, certificates) of the outer one")
		}
	}
	if n == 0 {
		r.bad(rule, "modules/l4tls", "SetVar tls_connection_states", "-", "the tls handler's store of the connection states was not found")
	}
}
