package main

import (
	"fmt"
	"go/types"
	"strings"

	"golang.org/x/tools/go/ssa"
)

// c04PublishedWithError: a pointer that comes out of a fallible call together with an error - (p, err) := f() - is nil
// when the error is not (url.Parse, net.ParseCIDR ...). Where per-connection code publishes such a pointer (stores it
// in a field of an object that lives on) before it has looked at the error, the error is what keeps the rest of the
// program from dereferencing a nil pointer: every return that can follow the store must then hand that error on -
// return it itself, lie behind the error's nil edge, or return another error that cannot be nil. A return of "no
// error" on a path where the error may be set leaves a nil pointer behind for the caller (a panic in the connection's
// goroutine ends the server).
func c04PublishedWithError(c *Ctx, r *Report, rule string) {
	r.rule(rule, "a pointer published (stored in a field) straight from a fallible call (p, err := f()) is published with its error: every return that can follow the store returns that error, lies behind the error's nil edge, or returns an error that cannot be nil", 1)
	reach := c.perConnReach()
	n := 0
	for _, fn := range sortedFuncs(reach) {
		if len(fn.Blocks) == 0 {
			continue
		}
		for _, ci := range callsIn(fn) {
			call, ok := ci.(*ssa.Call)
			if !ok {
				continue
			}
			tup, ok := call.Type().(*types.Tuple)
			if !ok || tup.Len() != 2 || typeStr(tup.At(1).Type()) != "error" {
				continue
			}
			if _, isPtr := tup.At(0).Type().Underlying().(*types.Pointer); !isPtr {
				continue
			}
			e0, e1 := extractOf(call, 0), extractOf(call, 1)
			if e0 == nil || e0.Referrers() == nil {
				continue
			}
			for _, ref := range *e0.Referrers() {
				st, ok := ref.(*ssa.Store)
				if !ok || st.Val != ssa.Value(e0) {
					continue
				}
				if _, isField := st.Addr.(*ssa.FieldAddr); !isField {
					continue
				}
				if e1 != nil && knownNil(st.Block(), e1, true) {
					continue // stored after the error was seen to be nil
				}
				_, sn, f, _ := fieldAddr(st.Addr)
				n++
				construct := fmt.Sprintf("%s.%s = result of %s", sn, f, calleeID(call))
				if e1 == nil {
					r.bad(rule, fname(fn), construct, c.ipos(st), "the error of the call is discarded and its pointer result published: it is nil whenever the call fails")
					continue
				}
				bad := ""
				res := fn.Signature.Results()
				if res.Len() == 0 || typeStr(res.At(res.Len()-1).Type()) != "error" {
					bad = "the function has no error result to hand the failure on with"
				}
				for _, ret := range returnsOf(fn) {
					if bad != "" {
						break
					}
					if !canReach(st, ret) {
						continue
					}
					if why := errorHandedOn(ret.Results[len(ret.Results)-1], ret.Block(), e1, 0); why != "" {
						bad = fmt.Sprintf("the return at %s %s", c.ipos(ret), why)
					}
				}
				r.check(bad == "", rule, fname(fn), construct, c.ipos(st),
					"every return after the store returns the call's error, lies behind its nil edge or returns a non-nil error",
					bad+": the caller goes on with a nil pointer in the field when the call failed (a nil dereference in the connection's goroutine ends the server process)")
			}
		}
	}
	if n == 0 {
		r.bad(rule, "module", "instances", "-", "no pointer published with its error found (the http matcher's request URL is one)")
	}
}

// errorHandedOn: "" if value v returned from block b hands on the error e (see the rule), else the reason.
func errorHandedOn(v ssa.Value, b *ssa.BasicBlock, e ssa.Value, depth int) string {
	if knownNil(b, e, true) {
		return ""
	}
	if v == e {
		return ""
	}
	switch x := v.(type) {
	case *ssa.Phi:
		if depth > 3 {
			return "is not decided (nested joins)"
		}
		for i, ev := range x.Edges {
			p := x.Block().Preds[i]
			// the fact may be established on the very edge p -> join
			if ifi, ok := p.Instrs[len(p.Instrs)-1].(*ssa.If); ok {
				if y, neq, ok := nilCheck(ifi.Cond); ok && y == e {
					si := 0
					if p.Succs[1] == x.Block() {
						si = 1
					}
					if (neq && si == 1) || (!neq && si == 0) {
						continue // the nil edge of the error
					}
				}
			}
			if why := errorHandedOn(ev, p, e, depth+1); why != "" {
				return why
			}
		}
		return ""
	case *ssa.Call:
		id := calleeID(x)
		if id == "fmt.Errorf" || id == "errors.New" || id == "errors.Join" && len(x.Call.Args) > 0 {
			return ""
		}
		return "returns the result of " + id + ", which is not known to be an error when the call failed"
	case *ssa.MakeInterface:
		return ""
	case *ssa.Const:
		if x.Value == nil {
			return "returns no error on a path where the call's error may be set"
		}
	case *ssa.UnOp:
		// a named result or a spilled variable: every store to the cell must hand the error on where it is made
		if al, ok := x.X.(*ssa.Alloc); ok {
			for _, sv := range storesTo(al) {
				var at *ssa.BasicBlock
				for _, ref := range *al.Referrers() {
					if st, ok := ref.(*ssa.Store); ok && st.Val == sv {
						at = st.Block()
					}
				}
				if at == nil {
					return "is not decided (a cell written elsewhere)"
				}
				if why := errorHandedOn(sv, at, e, depth+1); why != "" && !knownNil(b, e, true) {
					return why
				}
			}
			return ""
		}
		if g, ok := x.X.(*ssa.Global); ok && strings.HasPrefix(g.Name(), "Err") {
			return "" // a sentinel error
		}
	}
	return "returns a value that is not known to be an error when the call failed"
}

// c04BoundedParsers: foreign parsers that allocate what the peer announces before the bytes are there. The table is
// frozen from reading the dependency (golang.org/x/net v0.30.0 http2/frame.go: ReadFrame allocates make([]byte, size)
// for the 24-bit length of the frame header, up to the framer's maxReadSize, 16 MiB by default, and only then reads
// the payload): in per-connection code such a parser's limit must be set to a constant of at most 64 KiB + 1 KiB on
// every path before it reads.
var allocatingParsers = []struct{ ctor, read, limit, why string }{
	{"golang.org/x/net/http2.NewFramer", "(*golang.org/x/net/http2.Framer).ReadFrame", "(*golang.org/x/net/http2.Framer).SetMaxReadFrameSize",
		"ReadFrame allocates the payload length announced by the 9-byte frame header (up to maxReadSize, 16 MiB unless set) before the payload is read"},
}

func c04BoundedParsers(c *Ctx, r *Report, rule string) {
	r.rule(rule, "foreign parsers that allocate what the peer announces (frozen table: http2.Framer.ReadFrame allocates the announced frame length, 16 MiB unless limited): in per-connection code the limit is set to a constant <= 66560 on every path from the constructor to each read", 1)
	reach := c.perConnReach()
	n := 0
	for _, fn := range sortedFuncs(reach) {
		for _, ci := range callsIn(fn) {
			call, ok := ci.(*ssa.Call)
			if !ok {
				continue
			}
			for _, ap := range allocatingParsers {
				if calleeID(call) != ap.ctor {
					continue
				}
				n++
				isLimit := func(in ssa.Instruction) bool {
					c2, ok := in.(*ssa.Call)
					if !ok || calleeID(c2) != ap.limit || len(c2.Call.Args) < 2 || !derivesFrom(c2.Call.Args[0], call) {
						return false
					}
					v := c2.Call.Args[1]
					for {
						cv, ok := v.(*ssa.Convert)
						if !ok {
							break
						}
						v = cv.X
					}
					k, isConst := constInt(v)
					return isConst && k > 0 && k <= 66560
				}
				// what a helper of the module does with the parser it is given: "read" (it reads, and does nothing else
				// than calling the parser's methods), "none", or "out of sight" (it sets the limit itself, stores the
				// parser, hands it to foreign code)
				var handed func(g *ssa.Function, j int, depth int) string
				handed = func(g *ssa.Function, j int, depth int) string {
					if g == nil || g.Blocks == nil || j >= len(g.Params) || depth > 3 || g.Pkg == nil || !strings.HasPrefix(g.Pkg.Pkg.Path(), modPath) {
						return "out of sight"
					}
					res := "none"
					for _, ref := range *g.Params[j].Referrers() {
						switch x := ref.(type) {
						case *ssa.DebugRef:
						case ssa.CallInstruction:
							id := calleeID(x)
							switch {
							case id == ap.read:
								res = "read"
							case id == ap.limit:
								return "out of sight"
							case strings.HasPrefix(id, "(*golang.org/x/net/http2.Framer)."):
							default:
								sub := "out of sight"
								for k, a := range x.Common().Args {
									if a == ssa.Value(g.Params[j]) {
										sub = handed(x.Common().StaticCallee(), k, depth+1)
									}
								}
								if sub == "out of sight" {
									return sub
								}
								if sub == "read" {
									res = "read"
								}
							}
						default:
							return "out of sight"
						}
					}
					return res
				}
				helperUse := func(c2 ssa.CallInstruction) string {
					g := c2.Common().StaticCallee()
					if g == nil || strings.HasPrefix(calleeID(c2), "(*golang.org/x/net/http2.Framer).") {
						return ""
					}
					use := ""
					for k, a := range c2.Common().Args {
						if derivesFrom(a, call) {
							use = handed(g, k, 0)
							if use != "none" {
								return use
							}
						}
					}
					return use
				}
				isRead := func(in ssa.Instruction) bool {
					c2, ok := in.(*ssa.Call)
					if !ok {
						return false
					}
					if calleeID(c2) == ap.read && len(c2.Call.Args) >= 1 && derivesFrom(c2.Call.Args[0], call) {
						return true
					}
					return helperUse(c2) == "read" // a helper of the module that reads from the parser it is given
				}
				// the parser handed to a function that does more than read from it is out of sight: undecided
				escapes := ""
				for _, ref := range *call.Referrers() {
					if c2, ok := ref.(ssa.CallInstruction); ok && c2.Common().StaticCallee() != nil {
						if helperUse(c2) == "out of sight" {
							escapes = calleeID(c2)
						}
					}
				}
				if escapes != "" {
					r.bad(rule, fname(fn), ap.ctor, c.ipos(call), "undecided: the parser is handed to "+escapes)
					continue
				}
				unlimited := pathAvoiding(call, isRead, isLimit)
				r.check(unlimited == nil, rule, fname(fn), ap.ctor, c.ipos(call),
					"the limit is set to a constant <= 66560 before every read",
					fmt.Sprintf("the read at %s is reached without the parser's limit having been set: %s - a few bytes from a peer make the matcher allocate up to 16 MiB per matching round, far beyond the matching buffer limit", func() string {
						if unlimited != nil {
							return c.ipos(unlimited)
						}
						return "-"
					}(), ap.why))
			}
		}
	}
	if n == 0 {
		r.bad(rule, "module", "instances", "-", "no use of a parser of the table found in per-connection code (the http matcher's HTTP/2 framer is one)")
	}
}
