package main

import (
	"fmt"
	"go/token"
	"go/types"
	"os"
	"sort"
	"strings"

	"golang.org/x/tools/go/ssa"
)

// c04ProvisionedPointers: a pointer a module prepares while provisioning (a compiled regular expression, a logger,
// a limiter) and dereferences per connection without testing it. A method called on such a pointer panics when it
// is nil, in the connection's goroutine, i.e. the whole server stops. For every unexported pointer field of a
// module struct that per-connection code uses as the receiver of a method of a foreign type (regexp, zap, rate ...)
// without a nil test of that field in the same function:
//
//	(a) every store to the field in the module stores a value that cannot be nil when the storing function goes on
//	    (a fresh object, the result of a foreign constructor - judged together with its error -, or a module
//	    helper all of whose results are such values), and
//	(b) some function that stores it does so on every path to a return without error (the field is not left at
//	    its zero value by a branch).
func c04ProvisionedPointers(c *Ctx, r *Report, rule string) {
	r.rule(rule, "pointers prepared while provisioning and dereferenced per connection without a nil test (compiled regexps, loggers ...): every store to the field stores a value that cannot be nil (fresh object, foreign constructor result taken with its error, helper whose every result is such), and a storing function assigns it on every path to a return without error", 10)
	type fkey struct{ sn, f string }
	uses := map[fkey][]ssa.Instruction{}
	useFn := map[fkey]*ssa.Function{}
	reach := c.perConnReach()
	for _, fn := range sortedFuncs(reach) {
		if len(fn.Blocks) == 0 || fn.Pkg == nil || !strings.HasPrefix(fn.Pkg.Pkg.Path(), modPath) {
			continue
		}
		// fields tested against nil somewhere in this function count as guarded here
		guarded := map[fkey]bool{}
		for _, b := range fn.Blocks {
			for _, in := range b.Instrs {
				bo, ok := in.(*ssa.BinOp)
				if !ok || (bo.Op != token.EQL && bo.Op != token.NEQ) {
					continue
				}
				for _, side := range []ssa.Value{bo.X, bo.Y} {
					if ld, ok := side.(*ssa.UnOp); ok && ld.Op == token.MUL {
						if _, sn, f, ok := fieldAddr(ld.X); ok {
							guarded[fkey{sn, f}] = true
						}
					}
				}
			}
		}
		for _, ci := range callsIn(fn) {
			callee := ci.Common().StaticCallee()
			if callee == nil || callee.Signature.Recv() == nil || len(ci.Common().Args) == 0 {
				continue
			}
			if callee.Pkg != nil && strings.HasPrefix(callee.Pkg.Pkg.Path(), modPath) {
				continue // methods of the module's own types are analysed where they dereference
			}
			if _, isPtr := callee.Signature.Recv().Type().(*types.Pointer); !isPtr {
				continue
			}
			ld, ok := ci.Common().Args[0].(*ssa.UnOp)
			if !ok || ld.Op != token.MUL {
				continue
			}
			_, sn, f, ok := fieldAddr(ld.X)
			if !ok || token.IsExported(f) || !strings.Contains(sn, ".") {
				continue
			}
			k := fkey{sn, f}
			if guarded[k] {
				continue
			}
			uses[k] = append(uses[k], ci)
			if useFn[k] == nil {
				useFn[k] = fn
			}
		}
	}
	var keys []fkey
	for k := range uses {
		keys = append(keys, k)
	}
	sort.Slice(keys, func(i, j int) bool { return keys[i].sn+"."+keys[i].f < keys[j].sn+"."+keys[j].f })
	// stores per field
	type storeAt struct {
		st *ssa.Store
		fn *ssa.Function
	}
	stores := map[fkey][]storeAt{}
	for _, fn := range c.Funcs {
		for _, b := range fn.Blocks {
			for _, in := range b.Instrs {
				if st, ok := in.(*ssa.Store); ok {
					if _, sn, f, ok := fieldAddr(st.Addr); ok {
						k := fkey{sn, f}
						if _, used := uses[k]; used {
							stores[k] = append(stores[k], storeAt{st, fn})
						}
					}
				}
			}
		}
	}
	var nonNil func(v ssa.Value, depth int) (bool, string)
	nonNil = func(v ssa.Value, depth int) (bool, string) {
		switch x := v.(type) {
		case *ssa.Alloc, *ssa.MakeInterface, *ssa.MakeClosure, *ssa.MakeMap, *ssa.MakeChan, *ssa.MakeSlice:
			return true, ""
		case *ssa.Const:
			if x.IsNil() {
				return false, "the constant nil"
			}
			return true, ""
		case *ssa.Extract:
			if call, ok := x.Tuple.(*ssa.Call); ok {
				return nonNil(callResult{call, x.Index}.value(), depth)
			}
		case *ssa.Call:
			return nonNil(callResult{x, 0}.value(), depth)
		case callResultValue:
			callee := x.call.Common().StaticCallee()
			if callee == nil || callee.Pkg == nil || !strings.HasPrefix(callee.Pkg.Pkg.Path(), modPath) || len(callee.Blocks) == 0 {
				return true, "" // a foreign constructor: (value, error) convention
			}
			if depth > 3 {
				return false, "helper chain too deep"
			}
			res := callee.Signature.Results()
			errIdx := -1
			for i := 0; i < res.Len(); i++ {
				if types.Identical(res.At(i).Type(), types.Universe.Lookup("error").Type()) {
					errIdx = i
				}
			}
			for _, b := range callee.Blocks {
				ret, ok := b.Instrs[len(b.Instrs)-1].(*ssa.Return)
				if !ok || x.index >= len(ret.Results) {
					continue
				}
				if errIdx >= 0 && errIdx < len(ret.Results) {
					if k, isC := ret.Results[errIdx].(*ssa.Const); !isC || !k.IsNil() {
						continue // returned with an error (or one that may be non-nil and is checked by the caller)
					}
				}
				if ok2, why := nonNil(ret.Results[x.index], depth+1); !ok2 {
					return false, fmt.Sprintf("%s returns %s at %s", fname(callee), why, c.ipos(ret))
				}
			}
			return true, ""
		case *ssa.Phi:
			for _, e := range x.Edges {
				if ok, why := nonNil(e, depth); !ok {
					return false, why
				}
			}
			return true, ""
		case *ssa.ChangeType:
			return nonNil(x.X, depth)
		case *ssa.UnOp, *ssa.Parameter, *ssa.FreeVar, *ssa.TypeAssert, *ssa.Lookup:
			return true, "" // handed in from elsewhere: not judged here
		}
		return true, ""
	}
	for _, k := range keys {
		// only what is prepared before connections are served: a field that per-connection code also writes is
		// run-time state with its own invariants (not judged here)
		runtimeState := false
		for _, s := range stores[k] {
			if reach[s.fn] {
				runtimeState = true
			}
		}
		// ... and only fields the storing method sets on its own receiver: a field of an optional sub-object that
		// a parent fills in exists exactly when the sub-object does (its presence is the parent's nil test)
		ownReceiver := true
		for _, s := range stores[k] {
			base, _, _, _ := fieldAddr(s.st.Addr)
			if len(s.fn.Params) == 0 || s.fn.Signature.Recv() == nil || base != ssa.Value(s.fn.Params[0]) {
				ownReceiver = false
			}
		}
		if runtimeState || !ownReceiver {
			continue
		}
		name := k.sn + "." + k.f
		ufn := useFn[k]
		pos := c.ipos(uses[k][0])
		ss := stores[k]
		if len(ss) == 0 {
			// no direct store: the field may be assigned through its address (a table of pointers to fields filled
			// in a loop). The methods of the type that take the address are evaluated: on every path that returns
			// without error the field holds a value that is known not to be nil.
			how, problem := c04AssignedThroughAddress(c, k.sn, k.f, reach)
			if os.Getenv("L4DEBUG") == "c04addr" {
				fmt.Println("    c04addr", name, "|", how, "|", problem)
			}
			if how == "" && problem == "" {
				r.bad(rule, fname(ufn), name, pos, "the field is dereferenced per connection but never assigned in the module")
				continue
			}
			r.check(problem == "", rule, fname(ufn), name, pos, how, "a method is called on "+name+" per connection without a nil test, but the field can be nil: "+problem+" - the call panics in the connection's goroutine")
			continue
		}
		var problems []string
		for _, s := range ss {
			if ok, why := nonNil(s.st.Val, 0); !ok {
				problems = append(problems, fmt.Sprintf("%s stores a value that can be nil (%s) at %s", fname(s.fn), why, c.ipos(s.st)))
			}
		}
		// (b) one storing function assigns on every path to an error-free return
		always := false
		var leak string
		seenFn := map[*ssa.Function]bool{}
		for _, s := range ss {
			if seenFn[s.fn] {
				continue
			}
			seenFn[s.fn] = true
			isStore := func(in ssa.Instruction) bool {
				st, ok := in.(*ssa.Store)
				if !ok {
					return false
				}
				_, sn, f, ok := fieldAddr(st.Addr)
				return ok && sn == k.sn && f == k.f
			}
			okReturn := func(in ssa.Instruction) bool {
				ret, ok := in.(*ssa.Return)
				if !ok {
					return false
				}
				for _, rv := range ret.Results {
					if types.Identical(rv.Type(), types.Universe.Lookup("error").Type()) {
						if kc, isC := rv.(*ssa.Const); isC && kc.IsNil() {
							return true
						}
						if _, isC := rv.(*ssa.Const); isC {
							return false // a constant non-nil error
						}
						if _, isMI := rv.(*ssa.MakeInterface); isMI {
							return false // a concrete error value
						}
						if call, isCall := rv.(*ssa.Call); isCall {
							switch id := calleeID(call); {
							case id == "fmt.Errorf", id == "errors.New", strings.Contains(id, "caddyfile.Dispenser).") && (strings.HasSuffix(id, "Errf") || strings.HasSuffix(id, "Err") || strings.HasSuffix(id, "ArgErr") || strings.HasSuffix(id, "SyntaxErr")):
								return false // a freshly made error
							}
						}
						// a variable: nil unless this return is only reached on the non-nil edge of a test of it
						return !onNonNilEdge(ret.Block(), rv)
					}
				}
				return true
			}
			if hit := pathFromEntryAvoiding(s.fn, okReturn, isStore); hit == nil {
				always = true
			} else if leak == "" {
				leak = fmt.Sprintf("%s can return without error at %s without having assigned it", fname(s.fn), c.ipos(hit))
			}
		}
		if !always {
			problems = append(problems, "no storing function assigns the field on every path: "+leak)
		}
		r.check(len(problems) == 0, rule, fname(ufn), name, pos, fmt.Sprintf("%d unguarded use(s), %d store(s): every stored value is non-nil and one storing function assigns on all error-free paths", len(uses[k]), len(ss)), "a method is called on "+name+" per connection without a nil test, but the field can be nil: "+strings.Join(problems, "; ")+" - the call panics in the connection's goroutine")
	}
}

// callResult names one result of a call as a value for the non-nil judgement.
type callResult struct {
	call  *ssa.Call
	index int
}

type callResultValue struct {
	ssa.Value
	call  *ssa.Call
	index int
}

func (cr callResult) value() ssa.Value {
	return callResultValue{Value: cr.call, call: cr.call, index: cr.index}
}

// onNonNilEdge: block b is reached only through the "v != nil" outcome of a test of v (directly, or through a
// chain of single-predecessor blocks).
func onNonNilEdge(b *ssa.BasicBlock, v ssa.Value) bool {
	for depth := 0; depth < 4 && len(b.Preds) == 1; depth++ {
		p := b.Preds[0]
		if iff, ok := p.Instrs[len(p.Instrs)-1].(*ssa.If); ok {
			if bo, ok := iff.Cond.(*ssa.BinOp); ok {
				isNil := func(x ssa.Value) bool { k, ok := x.(*ssa.Const); return ok && k.IsNil() }
				if (bo.X == v && isNil(bo.Y)) || (bo.Y == v && isNil(bo.X)) {
					if bo.Op == token.NEQ && p.Succs[0] == b {
						return true
					}
					if bo.Op == token.EQL && p.Succs[1] == b {
						return true
					}
				}
			}
		}
		b = p
	}
	return false
}

// c04AssignedThroughAddress: the set-up methods of struct sn that take the address of field f other than for a direct
// load or store are evaluated (path evaluation; foreign constructors returning (value, error) answer both ways): at
// every error-free return the receiver's field must hold a known non-nil value.
func c04AssignedThroughAddress(c *Ctx, sn, f string, perConn map[*ssa.Function]bool) (how, problem string) {
	var fns []*ssa.Function
	for _, fn := range c.Funcs {
		if perConn[fn] || fn.Signature.Recv() == nil || len(fn.Params) == 0 {
			continue
		}
		takes := false
		for _, b := range fn.Blocks {
			for _, in := range b.Instrs {
				fa, ok := in.(*ssa.FieldAddr)
				if !ok || fa.X != ssa.Value(fn.Params[0]) {
					continue
				}
				if _, s2, f2, ok := fieldAddr(fa); !ok || s2 != sn || f2 != f {
					continue
				}
				for _, ref := range *fa.Referrers() {
					switch x := ref.(type) {
					case *ssa.UnOp, *ssa.DebugRef:
					case *ssa.Store:
						if x.Val == ssa.Value(fa) {
							takes = true // the address itself is stored somewhere
						}
					default:
						takes = true
					}
				}
			}
		}
		if takes {
			fns = append(fns, fn)
		}
	}
	if len(fns) == 0 {
		return "", ""
	}
	for _, fn := range fns {
		sc := &Scenario{Name: "assigned through its address", MaxVisit: 8, MaxPaths: 4000, ZeroRecv: true,
			Heap: map[string]SV{"recv." + f: symNil()}}
		sc.Alts = func(callee string, args []SV, ev *symEval, st *symState) []CallAlt {
			if strings.HasPrefix(callee, "invoke ") || strings.HasPrefix(callee, "builtin ") || strings.HasPrefix(callee, modPath) || strings.Contains(callee, modPath+"/") {
				return nil
			}
			if callee == "regexp.Compile" {
				return []CallAlt{
					{Ret: SV{K: "tuple", Desc: "ok", Elems: []SV{symRef(ev.fresh("compiled"), false), symNil()}}, Note: "ok"},
					{Ret: SV{K: "tuple", Desc: "err", Elems: []SV{symNil(), {K: "ref", Known: true, Desc: "compileErr"}}}, Note: "err"},
				}
			}
			return nil
		}
		paths, err := evalPaths(fn, sc)
		if err != nil || len(paths) == 0 {
			return "path evaluation of " + fname(fn), fmt.Sprintf("undecided: %s could not be evaluated (%v)", fname(fn), err)
		}
		okPaths := 0
		for _, p := range paths {
			if p.Outcome == "cutoff" {
				return "path evaluation of " + fname(fn), "undecided: exploration bound reached in " + fname(fn)
			}
			if len(p.Ret) == 0 {
				continue
			}
			last := p.Ret[len(p.Ret)-1]
			if !(last.K == "ref" && last.Known && last.Nil) {
				continue
			}
			okPaths++
			v, has := p.Heap["recv."+f]
			if !has || !(v.K == "ref" && v.Known && !v.Nil) {
				return "path evaluation of " + fname(fn), fmt.Sprintf("%s can return without error with the field still %s (path %s)", fname(fn), describeSV(v, has), altNotes(p))
			}
		}
		if okPaths > 0 {
			return fmt.Sprintf("assigned through its address in %s: %d error-free paths evaluated, the field is non-nil at the end of each", fname(fn), okPaths), ""
		}
	}
	return "path evaluation", "undecided: no error-free path found in the methods that take the field's address"
}

func describeSV(v SV, has bool) string {
	if !has {
		return "unset"
	}
	if v.K == "ref" && v.Known && v.Nil {
		return "nil"
	}
	return "of unknown value (" + v.K + " " + v.Desc + ")"
}
