package main

import (
	"fmt"
	"go/token"
	"go/types"
	"os"
	"strings"

	"golang.org/x/tools/go/ssa"
)

// Interprocedural facts for the bounds prover. Both directions are assume/guarantee over difference
// constraints and stay within the module:
//
//   - parameter facts: for an unexported function all of whose callers are known (it is never used as a value),
//     every bound and every pairwise difference bound among its integer parameters and the lengths of its
//     slice/string parameters that holds at ALL call sites (decided by the callers' provers at the call) holds
//     at its entry;
//   - return cases: a call of a module function is split over the callee's return statements; for each the
//     bounds among the returned integers / lengths of returned slices (decided by the callee's prover at that
//     return) hold for the call's results. A case whose facts contradict what the caller knows is unreachable.
//
// Extracting a helper from a parsing function therefore keeps its index/slice obligations provable.

type quantity struct {
	name  string // "p<i>" or "len(p<i>)"; for results "r<i>" / "len(r<i>)"
	index int
	isLen bool
}

func quantitiesOf(ts []types.Type, prefix string) []quantity {
	var out []quantity
	for i, t := range ts {
		switch u := t.Underlying().(type) {
		case *types.Basic:
			if u.Info()&types.IsInteger != 0 {
				out = append(out, quantity{fmt.Sprintf("%s%d", prefix, i), i, false})
			} else if u.Info()&types.IsString != 0 {
				out = append(out, quantity{fmt.Sprintf("len(%s%d)", prefix, i), i, true})
			}
		case *types.Slice:
			out = append(out, quantity{fmt.Sprintf("len(%s%d)", prefix, i), i, true})
		}
	}
	return out
}

func (c *Ctx) proverFor(fn *ssa.Function) *prover {
	if c.provers == nil {
		c.provers = map[*ssa.Function]*prover{}
	}
	if p, ok := c.provers[fn]; ok {
		return p
	}
	p := newProver(c, fn)
	c.provers[fn] = p
	return p
}

func (p *prover) qlin(q quantity, vals []ssa.Value) lin {
	if q.index >= len(vals) {
		return lin{}
	}
	if q.isLen {
		return p.lenOf(vals[q.index])
	}
	return p.lin(vals[q.index])
}

// boundAt: the tightest constant k with l <= k derivable from the facts in force at block b (no case split).
func (p *prover) boundAt(b *ssa.BasicBlock, l lin) (int64, bool) {
	if !l.ok {
		return 0, false
	}
	facts := append(append([]dfact(nil), p.global...), p.edgeFacts(b)...)
	d, ok := p.shortest(facts, l.pos, l.neg)
	if !ok || d < -(1<<50) {
		return 0, false
	}
	return d + l.c, true
}

// paramFacts adds to p.global what all call sites guarantee about fn's parameters.
func (p *prover) paramFacts() {
	fn := p.fn
	if p.c == nil || p.ipDone || fn.Parent() != nil || token.IsExported(fn.Name()) && fn.Signature.Recv() == nil {
		return
	}
	p.ipDone = true
	if token.IsExported(fn.Name()) {
		return // methods with exported names can be called through interfaces / from outside
	}
	sites, escapes := p.c.callSitesOf(fn)
	if os.Getenv("L4DEBUG") != "" && strings.Contains(fname(fn), os.Getenv("L4DEBUG")) {
		fmt.Println("DBG paramFacts", fname(fn), "sites", len(sites), "escapes", escapes, "depth", p.c.ipDepth)
	}
	if escapes || len(sites) == 0 || p.c.ipDepth > 2 {
		return
	}
	for _, cs := range sites {
		if _, isCall := cs.(*ssa.Call); !isCall {
			if _, isGo := cs.(*ssa.Go); !isGo {
				if _, isDefer := cs.(*ssa.Defer); !isDefer {
					return
				}
			}
		}
		if cs.Parent() == fn {
			return // recursive
		}
	}
	var ts []types.Type
	var pvals []ssa.Value
	for _, pr := range fn.Params {
		ts = append(ts, pr.Type())
		pvals = append(pvals, pr)
	}
	qs := quantitiesOf(ts, "p")
	if len(qs) == 0 || len(qs) > 8 {
		return
	}
	p.c.ipDepth++
	defer func() { p.c.ipDepth-- }()
	type pair struct{ a, b int } // b == -1: against the constant 0
	best := map[pair]int64{}
	have := map[pair]bool{}
	first := true
	for _, cs := range sites {
		pc := p.c.proverFor(cs.Parent())
		pc.paramFacts()
		args := cs.Common().Args
		cur := map[pair]int64{}
		for i, qa := range qs {
			la := pc.qlin(qa, args)
			if k, ok := pc.boundAt(cs.Block(), la); ok { // qa <= k
				cur[pair{i, -1}] = k
			}
			if k, ok := pc.boundAt(cs.Block(), negLin(la)); ok { // -qa <= k
				cur[pair{-1, i}] = k
			}
			for j, qb := range qs {
				if i == j {
					continue
				}
				d := addLin(la, negLin(pc.qlin(qb, args)))
				k, ok := pc.boundAt(cs.Block(), d)
				if (!ok || k > 0) && d.ok && qb.isLen && pc.entails(cs.Block(), d, 0) {
					// "does not exceed that length" may need the caller's case split over a join (a value that is 0
					// or an index found in the buffer): asked as a question, not read off the facts in force
					k, ok = 0, true
				}
				if ok {
					cur[pair{i, j}] = k
				}
			}
		}
		if os.Getenv("L4DEBUG") != "" && strings.Contains(fname(fn), os.Getenv("L4DEBUG")) {
			fmt.Println("DBG site", p.c.ipos(cs), "in", fname(cs.Parent()), "facts", cur)
			for _, qa := range qs {
				fmt.Println("    ", qa.name, "=", pc.qlin(qa, args))
			}
		}
		if first {
			for k, v := range cur {
				best[k], have[k] = v, true
			}
			first = false
			continue
		}
		for k := range have {
			v, ok := cur[k]
			if !ok {
				delete(have, k)
				continue
			}
			if v > best[k] {
				best[k] = v
			}
		}
	}
	atomOfQ := func(q quantity) atom {
		l := p.qlin(q, pvals)
		if l.ok && l.neg == "" && l.c == 0 {
			return l.pos
		}
		return "?"
	}
	for k := range have {
		var x, y atom
		if k.a >= 0 {
			x = atomOfQ(qs[k.a])
		}
		if k.b >= 0 {
			y = atomOfQ(qs[k.b])
		}
		if x == "?" || y == "?" {
			continue
		}
		p.add(dfact{x, y, best[k], fmt.Sprintf("holds at all %d call site(s) of %s", len(sites), fname(fn))})
	}
}

// retCase: the facts among the results of one return statement of a callee.
type retCase struct {
	where string
	facts []struct {
		a, b int // indices into the result quantities, -1 = constant 0
		c    int64
	}
}

func (c *Ctx) returnCases(g *ssa.Function) ([]quantity, []retCase, bool) {
	if c.retCases == nil {
		c.retCases = map[*ssa.Function][]retCase{}
		c.retQs = map[*ssa.Function][]quantity{}
		c.retOK = map[*ssa.Function]bool{}
	}
	if ok, done := c.retOK[g]; done {
		return c.retQs[g], c.retCases[g], ok
	}
	c.retOK[g] = false
	if len(g.Blocks) == 0 || g.Pkg == nil || !strings.HasPrefix(g.Pkg.Pkg.Path(), modPath) || c.ipDepth > 2 {
		return nil, nil, false
	}
	var ts []types.Type
	res := g.Signature.Results()
	for i := 0; i < res.Len(); i++ {
		ts = append(ts, res.At(i).Type())
	}
	qs := quantitiesOf(ts, "r")
	if len(qs) == 0 || len(qs) > 6 {
		return nil, nil, false
	}
	rets := returnsOf(g)
	if len(rets) == 0 || len(rets) > 12 {
		return nil, nil, false
	}
	c.ipDepth++
	defer func() { c.ipDepth-- }()
	pg := c.proverFor(g)
	pg.paramFacts()
	var cases []retCase
	for _, r := range rets {
		if g.Recover != nil && r.Block() == g.Recover {
			continue
		}
		rc := retCase{where: c.ipos(r)}
		for i, qa := range qs {
			la := pg.qlin(qa, r.Results)
			if k, ok := pg.boundAt(r.Block(), la); ok {
				rc.facts = append(rc.facts, struct {
					a, b int
					c    int64
				}{i, -1, k})
			}
			if k, ok := pg.boundAt(r.Block(), negLin(la)); ok {
				rc.facts = append(rc.facts, struct {
					a, b int
					c    int64
				}{-1, i, k})
			}
			for j, qb := range qs {
				if i == j {
					continue
				}
				d := addLin(la, negLin(pg.qlin(qb, r.Results)))
				if k, ok := pg.boundAt(r.Block(), d); ok {
					rc.facts = append(rc.facts, struct {
						a, b int
						c    int64
					}{i, j, k})
				}
			}
		}
		cases = append(cases, rc)
	}
	c.retQs[g], c.retCases[g], c.retOK[g] = qs, cases, true
	return qs, cases, true
}

// callCases lists, for a call of a summarised module function in p.fn, the alternative fact sets about its results.
func (p *prover) callCases(call *ssa.Call) [][]dfact {
	g := call.Call.StaticCallee()
	if g == nil || g == p.fn || p.c == nil {
		return nil
	}
	qs, cases, ok := p.c.returnCases(g)
	if !ok {
		return nil
	}
	// the caller's values for the results
	nres := g.Signature.Results().Len()
	vals := make([]ssa.Value, nres)
	if nres == 1 {
		vals[0] = call
	} else if call.Referrers() != nil {
		for _, r := range *call.Referrers() {
			if ex, ok := r.(*ssa.Extract); ok && ex.Index < nres {
				vals[ex.Index] = ex
			}
		}
	}
	atomOfQ := func(q quantity) (atom, bool) {
		if vals[q.index] == nil {
			return "", false
		}
		l := p.qlin(q, vals)
		if l.ok && l.neg == "" && l.c == 0 && l.pos != "" {
			return l.pos, true
		}
		return "", false
	}
	var out [][]dfact
	for _, rc := range cases {
		var fs []dfact
		for _, f := range rc.facts {
			var x, y atom
			okx, oky := true, true
			if f.a >= 0 {
				x, okx = atomOfQ(qs[f.a])
			}
			if f.b >= 0 {
				y, oky = atomOfQ(qs[f.b])
			}
			if okx && oky {
				fs = append(fs, dfact{x, y, f.c, "result of " + fname(g) + " returning at " + rc.where})
			}
		}
		out = append(out, fs)
	}
	return out
}

// nilErrorFacts: a validation helper of the module that returns an error (`if err := check(len(src), want); err != nil
// { return err }`). Where the caller goes on with err == nil, whatever holds among the helper's parameters at every
// one of its returns with a nil error holds among the caller's arguments.
func (p *prover) nilErrorFacts(bo *ssa.BinOp, truth bool) []dfact {
	if p.c == nil || (bo.Op != token.EQL && bo.Op != token.NEQ) {
		return nil
	}
	isNil := func(v ssa.Value) bool { k, ok := v.(*ssa.Const); return ok && k.IsNil() }
	var ev ssa.Value
	switch {
	case isNil(bo.Y):
		ev = bo.X
	case isNil(bo.X):
		ev = bo.Y
	default:
		return nil
	}
	if !types.Identical(ev.Type(), types.Universe.Lookup("error").Type()) {
		return nil
	}
	if (bo.Op == token.EQL) != truth {
		return nil // this edge is the one with a non-nil error
	}
	var call *ssa.Call
	idx := 0
	switch x := ev.(type) {
	case *ssa.Call:
		call = x
	case *ssa.Extract:
		call, _ = x.Tuple.(*ssa.Call)
		idx = x.Index
	}
	if call == nil {
		return nil
	}
	g := call.Call.StaticCallee()
	if g == nil || g == p.fn || g.Pkg == nil || !strings.HasPrefix(g.Pkg.Pkg.Path(), modPath) || len(g.Blocks) == 0 || p.c.ipDepth > 2 {
		return nil
	}
	var ts []types.Type
	var pvals []ssa.Value
	for _, pr := range g.Params {
		ts = append(ts, pr.Type())
		pvals = append(pvals, pr)
	}
	qs := quantitiesOf(ts, "p")
	if len(qs) == 0 || len(qs) > 8 || len(pvals) != len(call.Call.Args) {
		return nil
	}
	p.c.ipDepth++
	defer func() { p.c.ipDepth-- }()
	pg := p.c.proverFor(g)
	type pair struct{ a, b int }
	var common map[pair]int64
	n := 0
	for _, r := range returnsOf(g) {
		if idx >= len(r.Results) {
			return nil
		}
		if k, isC := r.Results[idx].(*ssa.Const); !isC || !k.IsNil() {
			if onNonNilEdge(r.Block(), r.Results[idx]) {
				continue // returns a non-nil error
			}
			if _, isCall := r.Results[idx].(*ssa.Call); isCall {
				continue // a freshly made error (fmt.Errorf ...): judged non-nil like the explicit sentinels
			}
			if _, isMI := r.Results[idx].(*ssa.MakeInterface); isMI {
				continue
			}
			if g2, isG := r.Results[idx].(*ssa.UnOp); isG {
				if _, isGlobal := g2.X.(*ssa.Global); isGlobal {
					continue // a package-level error variable
				}
			}
			return nil // may be nil in a way not understood here
		}
		n++
		cur := map[pair]int64{}
		for i, qa := range qs {
			la := pg.qlin(qa, pvals)
			if k, ok := pg.boundAt(r.Block(), la); ok {
				cur[pair{i, -1}] = k
			}
			if k, ok := pg.boundAt(r.Block(), negLin(la)); ok {
				cur[pair{-1, i}] = k
			}
			for j, qb := range qs {
				if i != j {
					if k, ok := pg.boundAt(r.Block(), addLin(la, negLin(pg.qlin(qb, pvals)))); ok {
						cur[pair{i, j}] = k
					}
				}
			}
		}
		if common == nil {
			common = cur
		} else {
			for k, v := range common {
				if w, ok := cur[k]; !ok {
					delete(common, k)
				} else if w > v {
					common[k] = w
				}
			}
		}
	}
	if n == 0 || len(common) == 0 {
		return nil
	}
	args := call.Call.Args
	var out []dfact
	for k, v := range common {
		la, lb := constLin(0), constLin(0)
		if k.a >= 0 {
			la = p.qlin(qs[k.a], args)
		}
		if k.b >= 0 {
			lb = p.qlin(qs[k.b], args)
		}
		d := addLin(la, negLin(lb))
		if d.ok {
			out = append(out, dfact{d.pos, d.neg, v - d.c, "nil error of " + fname(g)})
		}
	}
	return out
}

// boolResultFacts: a helper of the module that reports success in a bool result (`n, ok, err := readMore(...); if !ok
// { return }`). Where the caller goes on with that result true (false), whatever holds among the helper's parameters
// and integer results at every one of its returns that return the constant true (false) there holds among the
// caller's arguments and the values it extracts from the call.
func (p *prover) boolResultFacts(ex *ssa.Extract, truth bool) []dfact {
	if p.c == nil {
		return nil
	}
	call, ok := ex.Tuple.(*ssa.Call)
	if !ok {
		return nil
	}
	if b, isB := ex.Type().Underlying().(*types.Basic); !isB || b.Kind() != types.Bool {
		return nil
	}
	g := call.Call.StaticCallee()
	if g == nil || g == p.fn || g.Pkg == nil || !strings.HasPrefix(g.Pkg.Pkg.Path(), modPath) || len(g.Blocks) == 0 || p.c.ipDepth > 2 {
		return nil
	}
	var ts []types.Type
	var pvals []ssa.Value
	for _, pr := range g.Params {
		ts = append(ts, pr.Type())
		pvals = append(pvals, pr)
	}
	np := len(pvals)
	res := g.Signature.Results()
	for i := 0; i < res.Len(); i++ {
		ts = append(ts, res.At(i).Type())
	}
	qs := quantitiesOf(ts, "q")
	if len(qs) == 0 || len(qs) > 10 || np != len(call.Call.Args) {
		return nil
	}
	p.c.ipDepth++
	defer func() { p.c.ipDepth-- }()
	pg := p.c.proverFor(g)
	pg.paramFacts()
	type pair struct{ a, b int }
	var common map[pair]int64
	n := 0
	for _, r := range returnsOf(g) {
		if ex.Index >= len(r.Results) {
			return nil
		}
		k, isC := constBool(r.Results[ex.Index])
		if !isC {
			return nil // may be either: not understood here
		}
		if k != truth {
			continue
		}
		n++
		vals := append(append([]ssa.Value(nil), pvals...), r.Results...)
		cur := map[pair]int64{}
		for i, qa := range qs {
			la := pg.qlin(qa, vals)
			if k, ok := pg.boundAt(r.Block(), la); ok {
				cur[pair{i, -1}] = k
			}
			if k, ok := pg.boundAt(r.Block(), negLin(la)); ok {
				cur[pair{-1, i}] = k
			}
			for j, qb := range qs {
				if i != j {
					if k, ok := pg.boundAt(r.Block(), addLin(la, negLin(pg.qlin(qb, vals)))); ok {
						cur[pair{i, j}] = k
					}
				}
			}
		}
		if common == nil {
			common = cur
		} else {
			for k, v := range common {
				if w, ok := cur[k]; !ok {
					delete(common, k)
				} else if w > v {
					common[k] = w
				}
			}
		}
	}
	if n == 0 || len(common) == 0 {
		return nil
	}
	// the caller's values: arguments, then what it extracts from the call
	cvals := append([]ssa.Value(nil), call.Call.Args...)
	extracted := make([]ssa.Value, res.Len())
	if call.Referrers() != nil {
		for _, r := range *call.Referrers() {
			if e2, ok := r.(*ssa.Extract); ok && e2.Index < len(extracted) {
				extracted[e2.Index] = e2
			}
		}
	}
	cvals = append(cvals, extracted...)
	var out []dfact
	for k, v := range common {
		la, lb := constLin(0), constLin(0)
		if k.a >= 0 {
			if cvals[qs[k.a].index] == nil {
				continue
			}
			la = p.qlin(qs[k.a], cvals)
		}
		if k.b >= 0 {
			if cvals[qs[k.b].index] == nil {
				continue
			}
			lb = p.qlin(qs[k.b], cvals)
		}
		d := addLin(la, negLin(lb))
		if d.ok {
			out = append(out, dfact{d.pos, d.neg, v - d.c, fmt.Sprintf("result %v of %s", truth, fname(g))})
		}
	}
	return out
}

// ---------- facts for methods used as bound method values (callbacks) ----------

// fieldChain decodes addr as a chain of field selections from a root value ("" if it is none).
func fieldChain(addr ssa.Value) (root ssa.Value, chain string) {
	for {
		fa, ok := addr.(*ssa.FieldAddr)
		if !ok {
			return addr, chain
		}
		_, sn, f, ok := fieldAddr(fa)
		if !ok {
			return nil, ""
		}
		chain = sn + "." + f + "/" + chain
		addr = fa.X
	}
}

// callbackFacts: a method that the module only ever uses as a bound method value (x.M handed to a function that
// calls it back, e.g. the parse-after-decrypt step of the OpenVPN messages) starts with the receiver in the state it
// had where the value was made, as far as nothing in between can write it. For every slice field of the receiver:
// the constant bounds of its length that hold at ALL places where x.M is made hold for every load of that field in
// M, provided neither M, nor the function making the value, nor anything that function calls stores to the field.
func (p *prover) callbackFacts() {
	fn := p.fn
	if p.c == nil || p.cbDone {
		return
	}
	p.cbDone = true
	if fn.Signature.Recv() == nil || len(fn.Params) == 0 || fn.Parent() != nil || p.c.ipDepth > 2 {
		return
	}
	if sites, escapes := p.c.callSitesOf(fn); len(sites) != 0 || escapes {
		return // called directly as well: those callers owe nothing
	}
	var made []*ssa.MakeClosure
	for _, g := range p.c.Funcs {
		for _, b := range g.Blocks {
			for _, in := range b.Instrs {
				switch x := in.(type) {
				case *ssa.MakeClosure:
					w, _ := x.Fn.(*ssa.Function)
					if w != nil && w.Synthetic != "" && w.Pkg == nil && w.Object() != nil && w.Object() == fn.Object() && len(x.Bindings) == 1 {
						made = append(made, x)
					}
				case ssa.CallInstruction:
					if cm := x.Common(); cm.IsInvoke() && cm.Method.Name() == fn.Name() {
						return // may be reached through an interface
					}
				}
			}
		}
	}
	if len(made) == 0 {
		return
	}
	// the receiver's slice fields loaded in M
	type loadT struct {
		ld    *ssa.UnOp
		chain string
	}
	var mine []loadT
	for _, b := range fn.Blocks {
		for _, in := range b.Instrs {
			if ld, ok := in.(*ssa.UnOp); ok && ld.Op == token.MUL {
				if _, isSlice := ld.Type().Underlying().(*types.Slice); !isSlice {
					continue
				}
				if root, chain := fieldChain(ld.X); root == ssa.Value(fn.Params[0]) && chain != "" {
					mine = append(mine, loadT{ld, chain})
				}
			}
		}
	}
	if len(mine) == 0 {
		return
	}
	storesField := func(g *ssa.Function, chain string) bool {
		last := strings.Split(strings.TrimSuffix(chain, "/"), "/")
		snf := last[len(last)-1]
		for _, b := range g.Blocks {
			for _, in := range b.Instrs {
				if st, ok := in.(*ssa.Store); ok {
					if _, sn, f, ok := fieldAddr(st.Addr); ok && sn+"."+f == snf {
						return true
					}
				}
			}
		}
		return false
	}
	p.c.ipDepth++
	defer func() { p.c.ipDepth-- }()
	type bnd struct {
		lo, hi       int64
		hasLo, hasHi bool
	}
	var acc map[string]bnd
	for _, mc := range made {
		F := mc.Parent()
		pc := p.c.proverFor(F)
		pc.paramFacts()
		between := p.c.reach(p.c.callees(F))
		cur := map[string]bnd{}
		for _, b := range F.Blocks {
			for _, in := range b.Instrs {
				ld, ok := in.(*ssa.UnOp)
				if !ok || ld.Op != token.MUL || !(b == mc.Block() || b.Dominates(mc.Block())) {
					continue
				}
				root, chain := fieldChain(ld.X)
				if root != mc.Bindings[0] || chain == "" {
					continue
				}
				if _, isSlice := ld.Type().Underlying().(*types.Slice); !isSlice {
					continue
				}
				safe := !storesField(F, chain) && !storesField(fn, chain)
				for g := range between {
					if safe && storesField(g, chain) {
						safe = false
					}
				}
				if !safe {
					continue
				}
				c0 := cur[chain]
				if k, ok := pc.boundAt(mc.Block(), pc.lenOf(ld)); ok && (!c0.hasHi || k < c0.hi) {
					c0.hi, c0.hasHi = k, true
				}
				if k, ok := pc.boundAt(mc.Block(), negLin(pc.lenOf(ld))); ok && (!c0.hasLo || -k > c0.lo) {
					c0.lo, c0.hasLo = -k, true
				}
				cur[chain] = c0
			}
		}
		if acc == nil {
			acc = cur
			continue
		}
		for ch, a := range acc {
			c0 := cur[ch]
			a.hasHi = a.hasHi && c0.hasHi
			a.hasLo = a.hasLo && c0.hasLo
			if c0.hi > a.hi {
				a.hi = c0.hi
			}
			if c0.lo < a.lo {
				a.lo = c0.lo
			}
			acc[ch] = a
		}
	}
	for _, m := range mine {
		b0, ok := acc[m.chain]
		if !ok {
			continue
		}
		l := p.lenOf(m.ld)
		if !l.ok || l.neg != "" || l.c != 0 || l.pos == "" {
			continue
		}
		why := fmt.Sprintf("holds where the method value %s is made (%d place(s)) and nothing in between writes the field", fn.Name(), len(made))
		if b0.hasHi {
			p.add(dfact{l.pos, "", b0.hi, why})
		}
		if b0.hasLo {
			p.add(dfact{"", l.pos, -b0.lo, why})
		}
	}
}
