package main

import (
	"encoding/json"
	"fmt"
	"go/token"
	"go/types"
	"os"
	"path/filepath"
	"sort"
	"strings"

	"golang.org/x/tools/go/ssa"
)

// Renames of unexported identifiers must not change any verdict. The rules name functions, fields, types and
// package variables the way the reference tree does (specs/anchors.json, generated from it). On every run the
// current tree is compared with that table; an unexported identifier of the table that no longer exists is
// matched to a new identifier of the same kind by structure (same receiver and signature and the most similar
// set of external callees for functions; same type and position among the fields of that type for fields; same
// shape for types; same type for package variables). All names the checker produces (fname, field names, type
// strings, global names) are then given in the reference spelling, so obligation keys and scenario tables do not
// depend on how unexported identifiers are spelled. An identifier that cannot be matched unambiguously is left
// alone (the rules then report their anchor as missing).

type anchorFunc struct {
	Name    string   `json:"name"` // simple name
	Recv    string   `json:"recv"` // receiver type string, "" for functions
	Sig     string   `json:"sig"`
	Callees []string `json:"callees"`
}

type anchorField struct {
	Name string `json:"name"`
	Type string `json:"type"`
}

type anchorType struct {
	Name    string        `json:"name"`
	Kind    string        `json:"kind"`
	Fields  []anchorField `json:"fields,omitempty"`
	Methods []string      `json:"methods,omitempty"`
}

type anchorGlobal struct {
	Name string `json:"name"`
	Type string `json:"type"`
}

type anchorConst struct {
	Name string `json:"name"`
	Type string `json:"type"`
	Val  string `json:"val"`
}

type anchorPkg struct {
	Funcs   []anchorFunc   `json:"funcs"`
	Types   []anchorType   `json:"types"`
	Globals []anchorGlobal `json:"globals"`
	Consts  []anchorConst  `json:"consts"`
}

var (
	aliasFunc   = map[*ssa.Function]string{}
	aliasField  = map[*types.Var]string{}
	aliasGlobal = map[*ssa.Global]string{}
	aliasType   = map[string]string{}       // "pkg.New" -> "pkg.Old" (short package paths)
	aliasConst  = map[string]types.Object{} // "<package path>.<reference name>" -> the constant as it is spelled now
	aliasNotes  []string
)

func canonFuncName(f *ssa.Function) string {
	if n, ok := aliasFunc[f]; ok {
		return n
	}
	return f.Name()
}

func canonFieldName(v *types.Var) string {
	if n, ok := aliasField[v]; ok {
		return n
	}
	return v.Name()
}

func canonTypeString(s string) string {
	if len(aliasType) == 0 {
		return s
	}
	for nw, old := range aliasType {
		if !strings.Contains(s, nw) {
			continue
		}
		// replace whole identifiers only
		var b strings.Builder
		for i := 0; i < len(s); {
			if strings.HasPrefix(s[i:], nw) {
				end := i + len(nw)
				prevOK := i == 0 || !isIdentByte(s[i-1])
				nextOK := end == len(s) || !isIdentByte(s[end])
				if prevOK && nextOK {
					b.WriteString(old)
					i = end
					continue
				}
			}
			b.WriteByte(s[i])
			i++
		}
		s = b.String()
	}
	return s
}

func isIdentByte(c byte) bool {
	return c == '_' || c == '/' || (c >= '0' && c <= '9') || (c >= 'a' && c <= 'z') || (c >= 'A' && c <= 'Z')
}

func rawTypeStr(t types.Type) string {
	return types.TypeString(t, func(p *types.Package) string {
		if strings.HasPrefix(p.Path(), modPath) {
			return short(p.Path())
		}
		return p.Path()
	})
}

func sigString(sig *types.Signature) string {
	var ps, rs []string
	for i := 0; i < sig.Params().Len(); i++ {
		ps = append(ps, typeStr(sig.Params().At(i).Type()))
	}
	for i := 0; i < sig.Results().Len(); i++ {
		rs = append(rs, typeStr(sig.Results().At(i).Type()))
	}
	v := ""
	if sig.Variadic() {
		v = "..."
	}
	return "(" + strings.Join(ps, ",") + v + ")(" + strings.Join(rs, ",") + ")"
}

func externalCallees(f *ssa.Function) []string {
	set := map[string]bool{}
	var visit func(g *ssa.Function)
	visit = func(g *ssa.Function) {
		for _, b := range g.Blocks {
			for _, in := range b.Instrs {
				switch y := in.(type) {
				case *ssa.Store:
					if _, sn, f, ok := fieldAddr(y.Addr); ok && strings.Contains(sn, ".") {
						set["store "+sn+"."+f] = true
					}
				case *ssa.UnOp:
					if y.Op == token.MUL {
						if _, sn, f, ok := fieldAddr(y.X); ok && strings.Contains(sn, ".") {
							set["load "+sn+"."+f] = true
						}
					}
				}
				ci, ok := in.(ssa.CallInstruction)
				if !ok {
					continue
				}
				cc := ci.Common()
				switch {
				case cc.IsInvoke():
					set["invoke."+cc.Method.Name()] = true
				case cc.StaticCallee() != nil:
					cal := cc.StaticCallee()
					if cal.Pkg != nil && strings.HasPrefix(cal.Pkg.Pkg.Path(), modPath) {
						if token.IsExported(cal.Name()) {
							set["module."+cal.Name()] = true
						}
						continue
					}
					set[extName(cal)] = true
				default:
					if b, ok := cc.Value.(*ssa.Builtin); ok {
						set["builtin."+b.Name()] = true
					}
				}
			}
		}
		for _, a := range g.AnonFuncs {
			visit(a)
		}
	}
	visit(f)
	var out []string
	for k := range set {
		out = append(out, k)
	}
	sort.Strings(out)
	return out
}

func describePkg(p *ssa.Package) anchorPkg {
	var ap anchorPkg
	var names []string
	for n := range p.Members {
		names = append(names, n)
	}
	sort.Strings(names)
	addFunc := func(f *ssa.Function) {
		if f == nil || len(f.Blocks) == 0 || f.Synthetic != "" && !strings.HasPrefix(f.Name(), "init") {
			return
		}
		af := anchorFunc{Name: f.Name(), Sig: sigString(f.Signature), Callees: externalCallees(f)}
		if r := f.Signature.Recv(); r != nil {
			af.Recv = typeStr(r.Type())
		}
		ap.Funcs = append(ap.Funcs, af)
	}
	for _, n := range names {
		switch m := p.Members[n].(type) {
		case *ssa.Function:
			addFunc(m)
		case *ssa.Global:
			ap.Globals = append(ap.Globals, anchorGlobal{m.Name(), typeStr(deref(m.Type()))})
		case *ssa.NamedConst:
			if m.Value != nil && m.Value.Value != nil {
				ap.Consts = append(ap.Consts, anchorConst{m.Name(), typeStr(m.Type()), m.Value.Value.ExactString()})
			}
		case *ssa.Type:
			at := anchorType{Name: m.Name()}
			switch u := m.Type().Underlying().(type) {
			case *types.Struct:
				at.Kind = "struct"
				for i := 0; i < u.NumFields(); i++ {
					at.Fields = append(at.Fields, anchorField{u.Field(i).Name(), typeStr(u.Field(i).Type())})
				}
			case *types.Interface:
				at.Kind = "interface"
				for i := 0; i < u.NumMethods(); i++ {
					at.Methods = append(at.Methods, u.Method(i).Name()+sigString(u.Method(i).Type().(*types.Signature)))
				}
			default:
				at.Kind = typeStr(u)
			}
			ap.Types = append(ap.Types, at)
			for _, recv := range []types.Type{m.Type(), types.NewPointer(m.Type())} {
				ms := p.Prog.MethodSets.MethodSet(recv)
				for i := 0; i < ms.Len(); i++ {
					f := p.Prog.MethodValue(ms.At(i))
					if f != nil && f.Pkg == p && f.Signature.Recv() != nil && types.Identical(f.Signature.Recv().Type(), recv) {
						addFunc(f)
					}
				}
			}
		}
	}
	return ap
}

func anchorsPath() string { return filepath.Join(verifDir, "specs", "anchors.json") }

// writeAnchors records the reference spelling (run once on the reference tree: l4verify -write-anchors).
func writeAnchors(c *Ctx) error {
	out := map[string]anchorPkg{}
	for _, p := range c.Pkgs {
		if sp := c.SSA[p.PkgPath]; sp != nil {
			out[short(p.PkgPath)] = describePkg(sp)
		}
	}
	raw, _ := json.MarshalIndent(out, "", " ")
	return os.WriteFile(anchorsPath(), raw, 0o644)
}

func jaccard(a, b []string) float64 {
	set := map[string]int{}
	for _, x := range a {
		set[x] |= 1
	}
	for _, x := range b {
		set[x] |= 2
	}
	if len(set) == 0 {
		return 1
	}
	both := 0
	for _, v := range set {
		if v == 3 {
			both++
		}
	}
	return float64(both) / float64(len(set))
}

// resolveAliases compares the current tree with the reference table and fills the alias maps.
func resolveAliases(c *Ctx) {
	raw, err := os.ReadFile(anchorsPath())
	if err != nil {
		return
	}
	var ref map[string]anchorPkg
	if json.Unmarshal(raw, &ref) != nil {
		return
	}
	note := func(f string, a ...interface{}) { aliasNotes = append(aliasNotes, fmt.Sprintf(f, a...)) }
	var pkgs []string
	for k := range ref {
		pkgs = append(pkgs, k)
	}
	sort.Strings(pkgs)
	// pass 1: types (so that receivers and signatures can be compared in the reference spelling)
	for _, pk := range pkgs {
		sp := c.SSA[modPath+"/"+pk]
		if pk == "" || sp == nil {
			sp = c.SSA[strings.TrimSuffix(modPath+"/"+pk, "/")]
		}
		if sp == nil {
			continue
		}
		cur := map[string]*ssa.Type{}
		for n, m := range sp.Members {
			if t, ok := m.(*ssa.Type); ok {
				cur[n] = t
			}
		}
		refNames := map[string]bool{}
		for _, t := range ref[pk].Types {
			refNames[t.Name] = true
		}
		for _, rt := range ref[pk].Types {
			if _, ok := cur[rt.Name]; ok || token.IsExported(rt.Name) {
				continue
			}
			var cands []string
			for n, t := range cur {
				if refNames[n] || token.IsExported(n) {
					continue
				}
				switch u := t.Type().Underlying().(type) {
				case *types.Struct:
					if rt.Kind != "struct" || u.NumFields() != len(rt.Fields) {
						continue
					}
					same := true
					for i := 0; i < u.NumFields(); i++ {
						if rawTypeStr(u.Field(i).Type()) != rt.Fields[i].Type && canonTypeString(rawTypeStr(u.Field(i).Type())) != rt.Fields[i].Type {
							same = false
						}
					}
					if same {
						cands = append(cands, n)
					}
				case *types.Interface:
					if rt.Kind != "interface" || u.NumMethods() != len(rt.Methods) {
						continue
					}
					same := true
					for i := 0; i < u.NumMethods(); i++ {
						if u.Method(i).Name()+sigString(u.Method(i).Type().(*types.Signature)) != rt.Methods[i] {
							same = false
						}
					}
					if same {
						cands = append(cands, n)
					}
				default:
					if rt.Kind == rawTypeStr(u) {
						cands = append(cands, n)
					}
				}
			}
			if len(cands) == 1 {
				aliasType[pk+"."+cands[0]] = pk + "." + rt.Name
				note("type %s.%s is the reference's %s", pk, cands[0], rt.Name)
			}
		}
	}
	// pass 2: fields and package variables
	for _, pk := range pkgs {
		sp := c.SSA[strings.TrimSuffix(modPath+"/"+pk, "/")]
		if sp == nil {
			continue
		}
		for _, rt := range ref[pk].Types {
			if rt.Kind != "struct" {
				continue
			}
			var st *types.Struct
			for n, m := range sp.Members {
				t, ok := m.(*ssa.Type)
				if !ok {
					continue
				}
				if n == rt.Name || aliasType[pk+"."+n] == pk+"."+rt.Name {
					st, _ = t.Type().Underlying().(*types.Struct)
				}
			}
			if st == nil {
				continue
			}
			have := map[string]bool{}
			for i := 0; i < st.NumFields(); i++ {
				have[st.Field(i).Name()] = true
			}
			refHas := map[string]bool{}
			for _, f := range rt.Fields {
				refHas[f.Name] = true
			}
			// missing reference fields / unknown current fields, grouped by type, in order
			missing := map[string][]string{}
			for _, f := range rt.Fields {
				if !have[f.Name] && !token.IsExported(f.Name) {
					missing[f.Type] = append(missing[f.Type], f.Name)
				}
			}
			unknown := map[string][]*types.Var{}
			for i := 0; i < st.NumFields(); i++ {
				fv := st.Field(i)
				if !refHas[fv.Name()] && !token.IsExported(fv.Name()) {
					ts := canonTypeString(rawTypeStr(fv.Type()))
					unknown[ts] = append(unknown[ts], fv)
				}
			}
			for ts, names := range missing {
				if len(unknown[ts]) != len(names) {
					continue
				}
				for i, n := range names {
					aliasField[unknown[ts][i]] = n
					note("field %s.%s.%s is the reference's %s", pk, rt.Name, unknown[ts][i].Name(), n)
				}
			}
		}
		// globals
		curG := map[string]*ssa.Global{}
		for n, m := range sp.Members {
			if g, ok := m.(*ssa.Global); ok {
				curG[n] = g
			}
		}
		refG := map[string]bool{}
		for _, g := range ref[pk].Globals {
			refG[g.Name] = true
		}
		missing := map[string][]string{}
		for _, g := range ref[pk].Globals {
			if _, ok := curG[g.Name]; !ok && !token.IsExported(g.Name) && !strings.HasPrefix(g.Name, "init$") {
				missing[g.Type] = append(missing[g.Type], g.Name)
			}
		}
		unknown := map[string][]*ssa.Global{}
		var gnames []string
		for n := range curG {
			gnames = append(gnames, n)
		}
		sort.Strings(gnames)
		for _, n := range gnames {
			if !refG[n] && !token.IsExported(n) && !strings.HasPrefix(n, "init$") {
				ts := canonTypeString(rawTypeStr(deref(curG[n].Type())))
				unknown[ts] = append(unknown[ts], curG[n])
			}
		}
		for ts, names := range missing {
			if len(names) == 1 && len(unknown[ts]) == 1 {
				aliasGlobal[unknown[ts][0]] = names[0]
				note("variable %s.%s is the reference's %s", pk, unknown[ts][0].Name(), names[0])
			}
		}
	}
	// constants: an unexported constant that is missing is the one unexported constant of the same type and
	// value that the reference does not know
	for _, pk := range pkgs {
		sp := c.SSA[strings.TrimSuffix(modPath+"/"+pk, "/")]
		if sp == nil {
			continue
		}
		cur := map[string]*ssa.NamedConst{}
		for n, m := range sp.Members {
			if k, ok := m.(*ssa.NamedConst); ok && k.Value != nil && k.Value.Value != nil {
				cur[n] = k
			}
		}
		refC := map[string]bool{}
		for _, k := range ref[pk].Consts {
			refC[k.Name] = true
		}
		missing := map[string][]string{}
		for _, k := range ref[pk].Consts {
			if _, ok := cur[k.Name]; !ok && !token.IsExported(k.Name) {
				missing[k.Type+"="+k.Val] = append(missing[k.Type+"="+k.Val], k.Name)
			}
		}
		unknown := map[string][]*ssa.NamedConst{}
		var cn []string
		for n := range cur {
			cn = append(cn, n)
		}
		sort.Strings(cn)
		for _, n := range cn {
			if !refC[n] && !token.IsExported(n) {
				key := typeStr(cur[n].Type()) + "=" + cur[n].Value.Value.ExactString()
				unknown[key] = append(unknown[key], cur[n])
			}
		}
		for key, names := range missing {
			if len(names) == 1 && len(unknown[key]) == 1 {
				aliasConst[sp.Pkg.Path()+"."+names[0]] = unknown[key][0].Object()
				note("constant %s.%s is the reference's %s", pk, unknown[key][0].Name(), names[0])
			}
		}
	}
	// pass 3: functions and methods
	for _, pk := range pkgs {
		sp := c.SSA[strings.TrimSuffix(modPath+"/"+pk, "/")]
		if sp == nil {
			continue
		}
		cur := describePkg(sp) // in reference spelling as far as types are concerned
		curByKey := map[string]bool{}
		for _, f := range cur.Funcs {
			curByKey[f.Recv+"."+f.Name] = true
		}
		refByKey := map[string]bool{}
		for _, f := range ref[pk].Funcs {
			refByKey[f.Recv+"."+f.Name] = true
		}
		find := func(recv, name string) *ssa.Function {
			for _, f := range c.Funcs {
				if f.Pkg != sp || f.Parent() != nil || f.Name() != name {
					continue
				}
				r := ""
				if f.Signature.Recv() != nil {
					r = typeStr(f.Signature.Recv().Type())
				}
				if r == recv {
					return f
				}
			}
			return nil
		}
		for _, rf := range ref[pk].Funcs {
			if curByKey[rf.Recv+"."+rf.Name] || token.IsExported(rf.Name) || strings.HasPrefix(rf.Name, "init") {
				continue
			}
			best, bestScore, second := "", -1.0, -1.0
			for _, cf := range cur.Funcs {
				if refByKey[cf.Recv+"."+cf.Name] || token.IsExported(cf.Name) || cf.Recv != rf.Recv {
					continue
				}
				score := jaccard(cf.Callees, rf.Callees)
				if cf.Sig != rf.Sig {
					// a changed parameter order keeps the multiset of types
					a, b := strings.Split(strings.NewReplacer("(", ",", ")", ",").Replace(cf.Sig), ","), strings.Split(strings.NewReplacer("(", ",", ")", ",").Replace(rf.Sig), ",")
					sort.Strings(a)
					sort.Strings(b)
					if strings.Join(a, ",") != strings.Join(b, ",") {
						continue
					}
					score -= 0.05
				}
				if score > bestScore {
					best, bestScore, second = cf.Name, score, bestScore
				} else if score > second {
					second = score
				}
			}
			if best != "" && bestScore >= 0.5 && bestScore-second > 0.1 {
				if f := find(rf.Recv, best); f != nil {
					aliasFunc[f] = rf.Name
					note("function %s.%s%s is the reference's %s (similarity %.2f)", pk, map[bool]string{true: "(" + rf.Recv + ").", false: ""}[rf.Recv != ""], best, rf.Name, bestScore)
				}
			}
		}
	}
	sort.Strings(aliasNotes)
}

// scopeLookup finds a package-level object by its reference name (a renamed unexported constant is found under
// its present spelling).
func scopeLookup(pkg *types.Package, name string) types.Object {
	if pkg == nil {
		return nil
	}
	if o := pkg.Scope().Lookup(name); o != nil {
		return o
	}
	if o, ok := aliasConst[pkg.Path()+"."+name]; ok {
		return o
	}
	return nil
}
