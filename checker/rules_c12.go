package main

import (
	"fmt"
	"go/types"
	"os"
	"strings"

	"golang.org/x/tools/go/ssa"
)

func init() {
	register(&property{
		ID:          "C12",
		Explanation: "Static decision of the PROXY protocol plumbing by path evaluation: (R1) the receiving handler, over every outcome of the allow-list decision and of header parsing: untrusted peer -> the untouched connection is passed on; parse error -> returned, nothing passed on; success -> the parsed conn is published under the key GetConn reads and Wrap(conn) is passed on; (R2) Wrap never hands unread buffered bytes to the new connection (exactly the header is removed from the stream); (R3-R5) dialPeers writes, per upstream, exactly one header of the configured version built from GetConn(down) before the upstream joins the relayed set, and the version switch reads the value Provision derived from the placeholder-resolved option ('v1'->1, 'v2'->2, anything else rejected); (R6) the allow list: no rules -> parse; rules and a containing rule -> parse with that rule's timeout; rules and none / non-IP peer -> pass through; (R7) tidyRules never loses a configured rule other than an exact duplicate.",
		NotDecided:  "Well-formedness of the emitted header bytes and the parsing of all header variants/TLVs (third-party library), address values for all families, matchers/placeholders downstream seeing the declared addresses beyond the connection being wrapped.",
		Run:         runC12,
	})
}

func runC12(c *Ctx, r *Report) {
	c12R1(c, r, "C12.R1")
	c01R5(c, r, "C12.R2")
	c03Dial(c, r, "C12.R3", true)
	c12R4(c, r, "C12.R4")
	c12R6(c, r, "C12.R6")
	c12R7(c, r, "C12.R7")
	// later matchers see the addresses the header declared: matchers keep nothing on the connection (an address
	// cached there by an earlier remote_ip matcher would survive the replacement), and the address they test is
	// the connection's live RemoteAddr/LocalAddr
	c06R5(c, r, "C12.R8")
	c14TablesFor(c, r, "C12.R10", "proxy_protocol") // the route with the handler is entered for whole, split and near-miss v1/v2 headers exactly as the PROXY protocol says
	c14R4(c, r, "C12.R9")
	c12Provision(c, r, "C12.R12")
	c10R5(c, r, "C12.R13")                           // later handlers see the source address the header declares: ip_hash takes the client's address from the connection it is given, not from a socket further down
	c15TablesFor(c, r, "C12.R14", "l4proxyprotocol") // who is trusted to send a header is what the Caddyfile says: all allow lines of the block add up
	c01R4(c, r, "C12.R15")                           // later matchers see the stream behind the header: what is prefetched on the wrapped connection is kept in storage of its own (not in the pooled chunk that the next prefetch overwrites)
	c12Placeholders(c, r, "C12.R16")
	c12HeaderExamined(c, r, "C12.R17")
	c02Router(c, r, "C12.R11") // routes after the handler are decided on the connection it handed on: verdicts taken on the raw connection before the header was stripped are asked again
}

func c12R1(c *Ctx, r *Report, rule string) {
	r.rule(rule, "proxy_protocol Handle over (newConn nil / conn) x (ProxyHeader ok / error): nil -> next.Handle(cx) only; error -> returned, next not called, nothing published; ok -> SetVar(<key GetConn reads>, conn) then next.Handle(cx.Wrap(conn)); ok with a version 1 header that declares no addresses (PROXY UNKNOWN) -> next gets a connection that reads through conn and answers RemoteAddr()/LocalAddr() with those of cx", 4)
	fnName := "modules/l4proxyprotocol.(*Handler).Handle"
	fn := c.Fn(fnName)
	if fn == nil {
		r.bad(rule, fnName, "exists", "-", "function not found")
		return
	}
	// key used by GetConn
	getKey := ""
	if g := c.Fn("modules/l4proxyprotocol.GetConn"); g != nil {
		for _, ci := range callsIn(g) {
			if calleeID(ci) == "layer4.(*Connection).GetVar" {
				getKey, _ = constString(ci.Common().Args[1])
			}
		}
	}
	sc := &Scenario{Name: "flow", Params: map[string]SV{"recv": symRef("h", false), "p0": symRef("cx", false), "p1": symRef("next", false)}}
	sc.Call = func(callee string, args []SV, ev *symEval, st *symState) (SV, bool) {
		switch {
		case strings.HasPrefix(callee, "go.uber.org/zap"), strings.HasPrefix(callee, "(*go.uber.org/zap"), strings.Contains(callee, "Addr") && !strings.HasPrefix(callee, "modules/"):
			return symOpaque(shortCallee(callee)), true
		case callee == "fmt.Errorf":
			d := ""
			va := args[len(args)-1]
			for i := 0; i < 4; i++ {
				if v, ok := st.heap[fmt.Sprintf("%s[%d]", va.Desc, i)]; ok {
					d += v.Desc + ","
				}
			}
			return SV{K: "ref", Known: true, Desc: "wrapped(" + d + ")"}, true
		case callee == "layer4.(*Connection).Wrap":
			return symRef("Wrap("+args[0].Desc+","+args[1].Desc+")", false), true
		}
		return SV{}, false
	}
	sc.Alts = func(callee string, args []SV, ev *symEval, st *symState) []CallAlt {
		switch {
		case callee == "modules/l4proxyprotocol.(*Handler).newConn":
			return []CallAlt{{Ret: symNil(), Note: "untrusted"}, {Ret: symRef("ppconn", false), Note: "conn"}}
		case strings.HasSuffix(callee, "proxyprotocol.Conn).ProxyHeader"):
			// a version 1 header with addresses, a version 1 header without ("PROXY UNKNOWN": the library hands
			// out a zero HeaderV1), a version 2 header
			mk := func(desc, dyn string, withAddrs bool) SV {
				h := SV{K: "ref", Known: true, Desc: desc, Dyn: dyn}
				// the dynamic type as a type, so that a checked assertion (v, ok := hdr.(*HeaderV1)) is decided
				for _, pk := range c.Prog.AllPackages() {
					if pk.Pkg.Path() == "github.com/mastercactapus/proxyprotocol" {
						if tn, ok := pk.Members[strings.TrimPrefix(dyn, "*github.com/mastercactapus/proxyprotocol.")].(*ssa.Type); ok {
							h.DynT = types.NewPointer(tn.Type())
						}
					}
				}
				if strings.HasSuffix(dyn, "HeaderV1") {
					if withAddrs {
						four := symInt(4)
						st.heap[desc+".SrcIP"] = SV{K: "slice", Known: true, Desc: desc + ".src", Len: &four}
						st.heap[desc+".DestIP"] = SV{K: "slice", Known: true, Desc: desc + ".dst", Len: &four}
					} else {
						st.heap[desc+".SrcIP"] = symNil()
						st.heap[desc+".DestIP"] = symNil()
					}
				}
				return h
			}
			const v1, v2 = "*github.com/mastercactapus/proxyprotocol.HeaderV1", "*github.com/mastercactapus/proxyprotocol.HeaderV2"
			return []CallAlt{
				{Ret: SV{K: "tuple", Desc: "t", Elems: []SV{mk("hdr1", v1, true), symNil()}}, Note: "ok"},
				{Ret: SV{K: "tuple", Desc: "t", Elems: []SV{mk("hdr1u", v1, false), symNil()}}, Note: "ok-unknown"},
				{Ret: SV{K: "tuple", Desc: "t", Elems: []SV{mk("hdr2", v2, true), symNil()}}, Note: "ok"},
				{Ret: SV{K: "tuple", Desc: "t", Elems: []SV{symNil(), {K: "ref", Known: true, Desc: "parseErr"}}}, Note: "error"},
			}
		}
		return nil
	}
	paths, err := evalPaths(fn, sc)
	if err != nil || len(paths) == 0 {
		r.bad(rule, fnName, "flow", c.pos(fn.Pos()), fmt.Sprintf("undecided: %v", err))
		return
	}
	seen := map[string][]string{}
	for _, p := range paths {
		if os.Getenv("L4DEBUG") == "c12" {
			fmt.Println("DBGC12", p.Outcome, p.retDesc(), "|", fmtTrace(p))
		}
		kind, hdr := "", ""
		var next []string
		var setvars []Event
		for _, e := range p.Trace {
			if e.Kind != "call" {
				continue
			}
			switch {
			case strings.HasSuffix(e.What, ".newConn"):
				kind = e.Note
			case strings.HasSuffix(e.What, ".ProxyHeader"):
				hdr = e.Note
			case e.What == "invoke layer4.Handler.Handle":
				next = append(next, e.Args[1])
			case e.What == "layer4.(*Connection).SetVar":
				setvars = append(setvars, e)
			}
		}
		var bad []string
		switch {
		case kind == "untrusted":
			if len(next) != 1 || next[0] != "cx" || len(setvars) != 0 {
				bad = append(bad, "an untrusted peer must be passed through untouched: "+fmtTrace(p))
			}
			seen["untrusted"] = append(seen["untrusted"], bad...)
		case hdr == "error":
			if len(next) != 0 || len(setvars) != 0 || len(p.Ret) != 1 || !strings.Contains(p.Ret[0].Desc, "parseErr") {
				bad = append(bad, "a header parse error must be returned without running the next handler: "+fmtTrace(p))
			}
			seen["parse-error"] = append(seen["parse-error"], bad...)
		case hdr == "ok-unknown":
			// the header declares no addresses: the connection's own stay in force. The library's wrapper reports
			// the empty address for such a header, so what is handed on must answer with the addresses of cx
			// what is published for a later proxy handler (GetConn) is the connection with the addresses in force:
			// the one handed on - the library's wrapper itself answers with the empty address, and a proxy
			// configured to send a PROXY header would send "UNKNOWN" instead of the connection's own addresses
			switch {
			case len(setvars) != 1:
				bad = append(bad, "a connection must be published on cx also for a header without addresses")
			case len(next) == 1 && next[0] != "Wrap(cx,"+setvars[0].Args[2]+")":
				bad = append(bad, "after a version 1 header without addresses ('PROXY UNKNOWN') the connection published for a later proxy handler ("+setvars[0].Args[2]+") is not the one handed on ("+next[0]+"): the proxy takes the client's addresses from it for the PROXY header it sends, the library's wrapper answers with the empty address, and the upstream gets 'PROXY UNKNOWN' instead of the connection's own addresses - the client's effective ones")
			}
			why := ""
			switch {
			case len(next) != 1:
				why = fmt.Sprintf("next is called %d times", len(next))
			case next[0] == "Wrap(cx,ppconn)":
				why = "the next handler gets cx.Wrap(conn), the library's wrapper as it is"
			default:
				why = c12UnknownWrapper(c, p, next[0])
			}
			if why != "" {
				bad = append(bad, "after a version 1 header without addresses ('PROXY UNKNOWN') "+why+": its RemoteAddr() and LocalAddr() are ':0' (HeaderV1{}.SrcAddr() is a non-nil empty address) instead of the connection's own - remote_ip and local_ip matchers behind the handler fail and the connection is dropped")
			}
			seen["accepted, no addresses"] = append(seen["accepted, no addresses"], bad...)
		case hdr == "ok":
			if len(setvars) != 1 || setvars[0].Args[1] != fmt.Sprintf("%q", getKey) || setvars[0].Args[2] != "ppconn" || setvars[0].Args[0] != "cx" {
				bad = append(bad, fmt.Sprintf("the parsed conn must be published on cx under the key GetConn reads (%q)", getKey))
			}
			if len(next) != 1 || next[0] != "Wrap(cx,ppconn)" {
				bad = append(bad, "the next handler must get cx.Wrap(conn): gets "+strings.Join(next, ","))
			}
			seen["accepted"] = append(seen["accepted"], bad...)
		default:
			seen["other"] = append(seen["other"], "unclassified path: "+fmtTrace(p))
		}
	}
	for _, k := range []string{"untrusted", "parse-error", "accepted", "accepted, no addresses"} {
		b, ok := seen[k]
		r.check(ok && len(b) == 0, rule, fnName, k, c.pos(fn.Pos()), "as specified", strings.Join(dedup(b), "\n")+map[bool]string{true: "", false: "case not reached"}[ok])
	}
	if b := seen["other"]; len(b) > 0 {
		r.bad(rule, fnName, "other", c.pos(fn.Pos()), strings.Join(b, "\n"))
	}
}

func c12R4(c *Ctx, r *Report, rule string) {
	r.rule(rule, "version table: Provision stores 1 under (resolved option == \"v1\"), 2 under == \"v2\" and fails for any other non-empty value, where 'resolved' is the result of the replacer; dialPeers switches on that same stored field", 3)
	fnName := "modules/l4proxy.(*Handler).Provision"
	fn := c.Fn(fnName)
	if fn == nil {
		r.bad(rule, fnName, "exists", "-", "function not found")
		return
	}
	field := ""
	got := map[int64]string{}
	// Provision and the helpers of its package it calls synchronously and whose error it returns
	scanFns := []*ssa.Function{fn}
	for g := range c.reachSync(fn) {
		if g == fn || g.Pkg != fn.Pkg || g.Parent() != nil || g.Signature.Results().Len() != 1 || typeStr(g.Signature.Results().At(0).Type()) != "error" {
			continue
		}
		handedUp := false
		for _, ret := range returnsOf(fn) {
			if len(ret.Results) == 1 {
				for _, o := range origins(ret.Results[0], sliceOpts{}) {
					if o.Kind == "call" && o.Desc == fname(g) {
						handedUp = true
					}
				}
			}
		}
		if handedUp {
			scanFns = append(scanFns, g)
		}
	}
	var scanBlocks []*ssa.BasicBlock
	for _, g := range scanFns {
		scanBlocks = append(scanBlocks, g.Blocks...)
	}
	for _, b := range scanBlocks {
		for _, in := range b.Instrs {
			st, ok := in.(*ssa.Store)
			if !ok {
				continue
			}
			_, sn, f, ok := fieldAddr(st.Addr)
			v, isConst := constInt(st.Val)
			if !ok || sn != "modules/l4proxy.Handler" || !isConst || (v != 1 && v != 2) {
				continue
			}
			for _, cd := range edgeConds(st.Block()) {
				bo, ok := cd.V.(*ssa.BinOp)
				if !ok || !cd.Truth {
					continue
				}
				s, isStr := constString(bo.Y)
				fromRepl := false
				for _, o := range origins(bo.X, sliceOpts{}) {
					if o.Kind == "call" && strings.HasSuffix(o.Desc, "Replacer).ReplaceAll") {
						fromRepl = true
					}
				}
				if isStr && fromRepl {
					got[v] = s
					field = f
				}
			}
		}
	}
	r.check(got[1] == "v1" && got[2] == "v2", rule, fnName, "v1->1,v2->2", c.pos(fn.Pos()), "stored in Handler."+field, fmt.Sprintf("Provision does not map the resolved option \"v1\"->1 and \"v2\"->2 (found %v)", got))
	// dialPeers switches on that field
	if dp := c.Fn("modules/l4proxy.(*Handler).dialPeers"); dp != nil && field != "" {
		ok1, ok2 := false, false
		var scan []*ssa.BasicBlock // dialPeers and the helpers it calls synchronously
		for g := range c.reachSync(dp) {
			scan = append(scan, g.Blocks...)
		}
		for _, b := range scan {
			for _, in := range b.Instrs {
				al, ok := in.(*ssa.Alloc)
				if !ok {
					continue
				}
				tn := typeStr(deref(al.Type()))
				if !strings.HasSuffix(tn, "proxyprotocol.HeaderV1") && !strings.HasSuffix(tn, "proxyprotocol.HeaderV2") {
					continue
				}
				want := int64(1)
				if strings.HasSuffix(tn, "V2") {
					want = 2
				}
				for _, cd := range edgeConds(al.Block()) {
					if bo, ok := cd.V.(*ssa.BinOp); ok && cd.Truth {
						if v, isC := constInt(bo.Y); isC && v == want {
							if _, okf := loadOfField(bo.X, "modules/l4proxy.Handler", field); okf {
								if want == 1 {
									ok1 = true
								} else {
									ok2 = true
								}
							}
						}
					}
				}
			}
		}
		r.check(ok1 && ok2, rule, fname(dp), "switch on Handler."+field, c.pos(dp.Pos()), "header type chosen by the provisioned version", "dialPeers does not choose HeaderV1/HeaderV2 by comparing the field Provision stored (Handler."+field+") with 1/2: the header type is decided on something Provision did not validate/resolve (e.g. the raw option string with unresolved placeholders)")
	}
	// anything else rejected: evaluate Provision's tail? structural: an error return dominated by (resolved != "")
	rejects := false
	var rets []*ssa.Return
	for _, g := range scanFns {
		rets = append(rets, returnsOf(g)...)
	}
	for _, ret := range rets {
		if len(ret.Results) == 1 {
			for _, cd := range edgeConds(ret.Block()) {
				// s != "" taken, or s == "" not taken (the default arm of a switch over the resolved option)
				if bo, ok := cd.V.(*ssa.BinOp); ok && ((cd.Truth && bo.Op.String() == "!=") || (!cd.Truth && bo.Op.String() == "==")) {
					if s, isStr := constString(bo.Y); isStr && s == "" {
						if call, ok := ret.Results[0].(*ssa.Call); ok && calleeID(call) == "fmt.Errorf" {
							rejects = true
						}
					}
				}
			}
		}
	}
	r.check(rejects, rule, fnName, "other values rejected", c.pos(fn.Pos()), "any other non-empty value fails provisioning", "a proxy_protocol value other than v1/v2 is not rejected at provisioning")
}

func c12R6(c *Ctx, r *Report, rule string) {
	r.rule(rule, "allow list (newConn) over rule counts 0..2, TCP/UDP/other peer address and every Contains outcome: no rules -> NewConn(cx, …h.Timeout); first containing rule -> NewConn(cx, …that rule's timeout); none contains or non-IP address -> nil, and an IP peer is refused only after every rule was asked", 3)
	fnName := "modules/l4proxyprotocol.(*Handler).newConn"
	fn := c.Fn(fnName)
	if fn == nil {
		r.bad(rule, fnName, "exists", "-", "function not found")
		return
	}
	for n := 0; n <= 2; n++ {
		sc := &Scenario{Name: fmt.Sprintf("rules=%d", n), MaxVisit: 6,
			Params: map[string]SV{"recv": symRef("h", false), "p0": symRef("cx", false)},
			Heap:   map[string]SV{"h.rules": symSlice("rules", int64(n)), "h.Timeout": {K: "int", Desc: "h.Timeout"}},
			Inline: func(f *ssa.Function) bool { return f.Parent() != nil && fname(f.Parent()) == fnName },
		}
		sc.Call = func(callee string, args []SV, ev *symEval, st *symState) (SV, bool) {
			if strings.HasSuffix(callee, "proxyprotocol.NewConn") {
				return symRef("NewConn("+args[0].Desc+","+args[1].Desc+")", false), true
			}
			if callee == "time.Now" || strings.HasPrefix(callee, "(time.Time)") {
				if strings.HasSuffix(callee, ".Add") {
					return symOpaque("now+" + args[1].Desc), true
				}
				return symOpaque("now"), true
			}
			return SV{}, false
		}
		sc.Alts = func(callee string, args []SV, ev *symEval, st *symState) []CallAlt {
			if callee == "(*net.IPNet).Contains" {
				return []CallAlt{{Ret: symBool(true), Note: "in"}, {Ret: symBool(false), Note: "out"}}
			}
			return nil
		}
		paths, err := evalPaths(fn, sc)
		if err != nil || len(paths) == 0 {
			r.bad(rule, fnName, sc.Name, c.pos(fn.Pos()), fmt.Sprintf("undecided: %v", err))
			continue
		}
		var problems []string
		for _, p := range paths {
			if len(p.Ret) != 1 {
				problems = append(problems, "no return")
				continue
			}
			isIP := false
			for _, a := range p.Assume {
				if (strings.Contains(a, "*net.TCPAddr") || strings.Contains(a, "*net.UDPAddr")) && strings.HasSuffix(a, "=true") {
					isIP = true
				}
			}
			firstIn := -1
			k := 0
			for _, e := range p.Trace {
				if e.Kind == "call" && e.What == "(*net.IPNet).Contains" {
					if e.Note == "in" && firstIn < 0 {
						firstIn = k
					}
					k++
				}
			}
			ret := p.Ret[0]
			switch {
			case n == 0:
				if !strings.HasPrefix(ret.Desc, "NewConn(cx,") || !(strings.Contains(ret.Desc, "h.Timeout") || strings.Contains(ret.Desc, "zero")) {
					problems = append(problems, "without rules every peer's header must be parsed with the handler's timeout, returns "+ret.Desc)
				}
			case !isIP:
				if !(ret.Known && ret.Nil) {
					problems = append(problems, "a peer without IP address must be passed through when rules exist, returns "+ret.Desc)
				}
			case firstIn >= 0:
				if !strings.HasPrefix(ret.Desc, "NewConn(cx,") || !(strings.Contains(ret.Desc, ".Timeout") || strings.Contains(ret.Desc, "zero")) {
					problems = append(problems, "an allowed peer's header must be parsed, returns "+ret.Desc+" : "+fmtTrace(p))
				}
			default:
				if !(ret.Known && ret.Nil) {
					problems = append(problems, "a peer outside every allowed range must be passed through untouched, returns "+ret.Desc)
				}
				if k != n && p.Outcome == "return" {
					problems = append(problems, fmt.Sprintf("the peer is treated as not allowed although only %d of the %d rules were asked whether they contain its address (assumptions: %s): an allowed peer's header is passed on as payload", k, n, strings.Join(p.Assume, " & ")))
				}
			}
		}
		// the header deadline belongs to NewConn (which clears it once the header is read): a deadline set on the
		// connection itself stays armed and cuts the client's stream when it passes
		for _, p := range paths {
			for _, e := range p.Trace {
				if e.Kind == "call" && (strings.HasSuffix(e.What, ".SetReadDeadline") || strings.HasSuffix(e.What, ".SetDeadline")) {
					problems = append(problems, "a read deadline is set on the connection while the header is awaited ("+e.What+"): nothing clears it after the header, every later read of the client's stream fails once it has passed")
				}
			}
			if len(p.Ret) == 1 && strings.HasPrefix(p.Ret[0].Desc, "NewConn(cx,") {
				timeoutZero := false
				for _, a := range p.Assume {
					if strings.Contains(a, "== 0)=true") {
						timeoutZero = true
					}
				}
				if !timeoutZero && !strings.Contains(p.Ret[0].Desc, "now+") && !strings.Contains(p.Ret[0].Desc, "zero") {
					problems = append(problems, "with a timeout configured the header deadline handed to NewConn must be now + timeout, is "+p.Ret[0].Desc)
				}
			}
		}
		r.check(len(problems) == 0, rule, fnName, sc.Name, c.pos(fn.Pos()), fmt.Sprintf("%d paths", len(paths)), strings.Join(dedup(problems), "\n"))
	}
}

func c12R7(c *Ctx, r *Report, rule string) {
	r.rule(rule, "tidyRules (1 and 2 configured rules, equal or different subnets): afterwards the handler still holds every configured rule that is not an exact duplicate (a single rule is never dropped; two different rules both stay)", 2)
	fnName := "modules/l4proxyprotocol.(*Handler).tidyRules"
	fn := c.Fn(fnName)
	if fn == nil {
		r.bad(rule, fnName, "exists", "-", "function not found")
		return
	}
	for n := int64(1); n <= 2; n++ {
		sc := &Scenario{Name: fmt.Sprintf("rules=%d", n), MaxVisit: 6,
			Params: map[string]SV{"recv": symRef("h", false)},
			Heap:   map[string]SV{"h.rules": symSlice("rules", n)},
		}
		sc.Call = func(callee string, args []SV, ev *symEval, st *symState) (SV, bool) {
			if callee == "sort.Slice" {
				return symOpaque("sorted"), true
			}
			return SV{}, false
		}
		sc.Alts = func(callee string, args []SV, ev *symEval, st *symState) []CallAlt {
			return nil
		}
		paths, err := evalPaths(fn, sc)
		if err != nil || len(paths) == 0 {
			r.bad(rule, fnName, sc.Name, c.pos(fn.Pos()), fmt.Sprintf("undecided: %v", err))
			continue
		}
		var problems []string
		for _, p := range paths {
			final := p.Heap["h.rules"]
			if final.Len == nil || !final.Len.Known {
				// unknown length: acceptable only if it is an append-based value we cannot size; be strict
				problems = append(problems, "length of h.rules after tidyRules is undetermined ("+final.Desc+")")
				continue
			}
			dup := false
			for _, a := range p.Assume {
				if strings.Contains(a, "==") && strings.HasSuffix(a, "=true") {
					dup = true
				}
			}
			min := n
			if dup && n == 2 {
				min = 1
			}
			if final.Len.N < min {
				problems = append(problems, fmt.Sprintf("%d configured rule(s) (duplicates: %v) but %d left in h.rules (%s): an allow list that loses its most specific/only rule lets every peer (or nobody) send PROXY headers", n, dup, final.Len.N, final.Desc))
			}
		}
		r.check(len(problems) == 0, rule, fnName, sc.Name, c.pos(fn.Pos()), fmt.Sprintf("%d paths", len(paths)), strings.Join(dedup(problems), "\n"))
	}
}

// c12UnknownWrapper judges what the handler hands on after a header without addresses: Wrap(cx, W) where W is a value
// of a type of the module that reads through the library's wrapper (its embedded connection is conn) and whose own
// RemoteAddr and LocalAddr return the addresses of cx.
func c12UnknownWrapper(c *Ctx, p Path, next string) string {
	if !strings.HasPrefix(next, "Wrap(cx,") {
		return "the next handler gets " + next
	}
	w := strings.TrimSuffix(strings.TrimPrefix(next, "Wrap(cx,"), ")")
	readsThrough, under := false, ""
	for k, v := range p.Heap {
		if !strings.HasPrefix(k, w+".") {
			continue
		}
		if v.Desc == "ppconn" {
			readsThrough = true
		}
		if v.Desc == "cx" {
			under = strings.TrimPrefix(k, w+".")
		}
	}
	if !readsThrough {
		return "the connection handed on (" + w + ") does not read through the parsed connection"
	}
	if under == "" {
		return "the connection handed on does not know the connection below"
	}
	// the module's type with a field `under` of its own and RemoteAddr/LocalAddr defined on it
	pkg := c.SSA[modPath+"/modules/l4proxyprotocol"]
	if pkg == nil {
		return "package not found"
	}
	for _, mem := range pkg.Members {
		t, ok := mem.(*ssa.Type)
		if !ok {
			continue
		}
		st, ok := t.Type().Underlying().(*types.Struct)
		if !ok {
			continue
		}
		has := false
		for i := 0; i < st.NumFields(); i++ {
			if st.Field(i).Name() == under {
				has = true
			}
		}
		if !has {
			continue
		}
		okMethods := 0
		for _, name := range []string{"RemoteAddr", "LocalAddr"} {
			for _, recv := range []types.Type{t.Type(), types.NewPointer(t.Type())} {
				sel := c.Prog.MethodSets.MethodSet(recv).Lookup(pkg.Pkg, name)
				if sel == nil {
					continue
				}
				f := c.Prog.MethodValue(sel)
				if f == nil || f.Synthetic != "" || f.Pkg != pkg {
					continue // promoted from the embedded wrapper: the library's answer
				}
				for _, ret := range returnsOf(f) {
					for _, o := range origins(ret.Results[0], sliceOpts{}) {
						if call, ok := o.V.(*ssa.Call); ok && call.Call.IsInvoke() && call.Call.Method.Name() == name {
							if _, _, fld, ok := fieldAddr(func() ssa.Value {
								switch x := call.Call.Value.(type) {
								case *ssa.UnOp:
									return x.X
								case *ssa.Field:
									return x
								}
								return call.Call.Value
							}()); ok && fld == under {
								okMethods++
							}
						}
					}
				}
				break
			}
		}
		if okMethods >= 2 {
			return ""
		}
		return "the connection handed on is a " + t.Name() + " whose RemoteAddr/LocalAddr are not its own answers from the connection below"
	}
	return "the type of the connection handed on was not found in the module"
}
