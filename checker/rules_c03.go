package main

import (
	"fmt"
	"go/token"
	"go/types"
	"os"
	"regexp"
	"sort"
	"strconv"
	"strings"

	"golang.org/x/tools/go/ssa"
)

func init() {
	register(&property{
		ID:          "C03",
		Explanation: "Static decision of the proxy's relay structure by path evaluation (goroutine bodies evaluated in place): (R1) proxy() chains one TeeReader per upstream starting from the downstream connection, starts one copy-back goroutine per upstream (upstream -> downstream) and one pump that drains the last link of the chain, all over the same, complete upConns slice; (R2) after the pump's copy ends every upstream gets CloseWrite (or Close where it has no half-close), and after the upstream copies end the downstream's write side is closed when it supports it; (R3) join: wg.Add before each go, deferred wg.Done, wg.Wait and the receive of the pump's completion signal precede the return, and the pump's signal cannot block before it has half-closed the upstreams (buffered channel or signal sent afterwards); (R4) cleanup: Handle defers closing every dialed connection before proxying (C11.R2 evaluation), and dialPeers - evaluated over every outcome of dial and PROXY-header write for 2 peers and versions none/v1/v2 - returns either all dialed connections in order, or an error with every connection it dialed closed.",
		NotDecided:  "Byte-exactness for all payloads/chunkings/timings (io.Copy and io.TeeReader are trusted); half-close through connection wrappers that hide CloseWrite (throttle, proxy_protocol's Conn - noted in DESIGN.md); goroutine/fd counts over time.",
		Run:         runC03,
	})
}

func runC03(c *Ctx, r *Report) {
	c03Proxy(c, r)
	c11Handle(c, r, "C03.R4")
	c03Dial(c, r, "C03.R5", false)
	c01R5(c, r, "C03.R6")
	c01R3(c, r, "C03.R7")
	c03Wrappers(c, r, "C03.R10")
	c03Write(c, r, "C03.R11")
	c03HalfCloser(c, r, "C03.R14")
	c03TeeBranch(c, r, "C03.R15")
	c01R7(c, r, "C03.R17")                // every byte from the first unconsumed one reaches the upstreams: handlers in front of the proxy hand on what they have buffered
	c01R1(c, r, "C03.R18")                // "from its first unconsumed byte": every matcher of a set is rewound before the next one freezes the cursor (a deferred rewind leaves the bytes a non-last matcher read out of the relayed stream)
	c17ReadAs(c, r, "C03.R19", "C03.R20") // a throttle in front of the proxy: a batch larger than a limiter's burst fails the wait, the pump takes the error for the end of the client's stream and half-closes the upstreams
	c01R2(c, r, "C03.R22")                // "from its first unconsumed byte": leaving matching mode puts the cursor back where matching began, not at the head of the buffer (bytes an earlier handler consumed would be relayed again)
	c09R6(c, r, "C03.R21")                // every datagram relayed is the one the client sent: the record queued for a client owns the buffer its datagram was received into (not one the reader goes on receiving into)
	c08R6(c, r, "C03.R16")                // the relay starts with the client's own bytes: a new connection's matching buffer is proven empty (server and listener wrapper alike)
	c11PeerKey(c, r, "C03.R13")           // each upstream of the group is its own backend: two dial addresses never collapse into one peer
	c05R23(c, r, "C03.R12")               // the relay runs without the matching deadline: a deadline left armed on the client socket cuts the client->upstream direction when it passes
	c09R7(c, r, "C03.R9")                 // UDP downstream: a datagram that exactly fills the read buffer must not produce a spurious end of stream
	c01R4(c, r, "C03.R8")                 // what was prefetched for matching is what the relay later replays: prefetch appends exactly what it read
}

func c03Proxy(c *Ctx, r *Report) {
	r.rule("C03.R1", "fan-out completeness of proxy() for 2 upstreams: tee chain down->up0->up1, one copy-back io.Copy(down, up_i) per upstream, the pump copies from the last tee", 1)
	r.rule("C03.R2", "half-close propagation, evaluated with TCP, UDP, unix stream and unix datagram connections: after the pump every upstream gets CloseWrite if it is a stream that offers it (also a *net.UnixConn, which is a packet connection as well) and Close otherwise (also a unixgram socket, whose CloseWrite ends nothing); after wg.Wait the downstream gets CloseWrite when it supports it", 1)
	r.rule("C03.R3", "join: wg.Add(1) before each go and deferred wg.Done in it; wg.Wait and the receive of the pump's signal precede return; the signal cannot block ahead of the half-close", 1)
	fnName := "modules/l4proxy.(*Handler).proxy"
	fn := c.Fn(fnName)
	if fn == nil {
		r.bad("C03.R1", fnName, "exists", "-", "function not found")
		return
	}
	// connection kinds: *net.TCPConn can half-close (CloseWrite), *net.UDPConn cannot
	tcpT, udpT := netType(c, "TCPConn"), netType(c, "UDPConn")
	if tcpT == nil || udpT == nil {
		r.bad("C03.R1", fnName, "evaluation", c.pos(fn.Pos()), "net.TCPConn / net.UDPConn types not found")
		return
	}
	var paths []Path
	pathCaps := map[int][3]bool{}
	// ... and so can *net.UnixConn (an upstream dialed as unix/...), which - unlike the TCP connection - also has the
	// methods of a packet connection: what decides is CloseWrite, not what else the type offers
	unixT := netType(c, "UnixConn")
	if unixT == nil {
		r.bad("C03.R1", fnName, "evaluation", c.pos(fn.Pos()), "net.UnixConn type not found")
		return
	}
	// ... but not if it is a datagram socket (unixgram/...): it has CloseWrite like every *net.UnixConn, yet shutting
	// down its writing side ends nothing - the relay must close it like a UDP socket or the handler never returns
	for si, caps := range [][3]bool{{true, true, true}, {false, false, false}, {true, false, true}, {false, true, false}, {true, true, true}, {true, false, false}} {
		capT, incapT, incapNet := tcpT, udpT, "udp"
		if si >= 4 {
			capT = unixT
		}
		if si == 5 {
			incapT, incapNet = unixT, "unixgram"
		}
		networks := map[string]string{}
		kind := func(desc string, capable bool) SV {
			v := symRef(desc, false)
			if capable {
				v.DynT, v.Dyn = capT, typeStr(capT)
				networks[desc] = map[bool]string{true: "unix", false: "tcp"}[capT == unixT]
			} else {
				v.DynT, v.Dyn = incapT, typeStr(incapT)
				networks[desc] = incapNet
			}
			return v
		}
		sc := &Scenario{Name: "two-upstreams", MaxVisit: 6, InlineGo: true,
			Params: map[string]SV{"recv": symRef("h", false)},
			ByType: map[string]SV{"layer4.Connection": symRef("down", false), "[]net.Conn": symSlice("ups", 2)},
			Heap:   map[string]SV{"ups[0]": kind("up0", caps[1]), "ups[1]": kind("up1", caps[2]), "down.Conn": kind("down.Conn", caps[0])},
			Inline: func(f *ssa.Function) bool { // the closures of proxy(), nested ones included, and the unexported functions of the package it runs (as goroutines or directly)
				for q := f.Parent(); q != nil; q = q.Parent() {
					if fname(q) == fnName {
						return true
					}
				}
				return f.Pkg != nil && f.Pkg == fn.Pkg && f != fn && f.Parent() == nil && !token.IsExported(f.Name())
			},
		}
		c03ProxyCalls(sc)
		base := sc.Call
		sc.Call = func(callee string, args []SV, ev *symEval, st *symState) (SV, bool) {
			switch {
			case (strings.HasSuffix(callee, ".RemoteAddr") || strings.HasSuffix(callee, ".LocalAddr")) && len(args) == 1:
				if _, ok := networks[args[0].Desc]; ok {
					return symRef("addr:"+args[0].Desc, false), true
				}
			case strings.HasSuffix(callee, ".Network") && len(args) == 1 && strings.HasPrefix(args[0].Desc, "addr:"):
				return symStr(networks[strings.TrimPrefix(args[0].Desc, "addr:")]), true
			}
			return base(callee, args, ev, st)
		}
		ps, err := evalPaths(fn, sc)
		if err != nil || len(ps) == 0 {
			r.bad("C03.R1", fnName, "evaluation", c.pos(fn.Pos()), fmt.Sprintf("undecided: %v", err))
			return
		}
		for range ps {
			pathCaps[len(pathCaps)] = caps
		}
		paths = append(paths, ps...)
	}
	c03ProxyCheck(c, r, fn, fnName, paths, pathCaps)
}

func netType(c *Ctx, name string) types.Type {
	for _, p := range c.Pkgs {
		for _, imp := range p.Imports {
			if imp.PkgPath == "net" && imp.Types != nil {
				if o := imp.Types.Scope().Lookup(name); o != nil {
					return types.NewPointer(o.Type())
				}
			}
		}
	}
	return nil
}

func c03ProxyCalls(sc *Scenario) {
	sc.Call = func(callee string, args []SV, ev *symEval, st *symState) (SV, bool) {
		switch {
		case callee == "io.TeeReader":
			return symRef(fmt.Sprintf("tee(%s,%s)", args[0].Desc, args[1].Desc), false), true
		case callee == "io.Copy", callee == "io.CopyBuffer":
			return SV{K: "tuple", Desc: "copy", Elems: []SV{{K: "int", Desc: "n"}, symNil()}}, true
		case strings.HasPrefix(callee, "(*sync/atomic.Bool)"), strings.HasPrefix(callee, "(*sync.WaitGroup)"):
			return symOpaque("sync"), true
		}
		return SV{}, false
	}
}

func c03ProxyCheck(c *Ctx, r *Report, fn *ssa.Function, fnName string, paths []Path, pathCaps map[int][3]bool) {
	var p1, p2, p3 []string
	for pi, p := range paths {
		caps := pathCaps[pi]
		tr := fmtTrace(p)
		if os.Getenv("L4DEBUG") == "c03proxy" {
			fmt.Println("DBG c03 path", pi, caps)
			for _, e := range p.Trace {
				fmt.Println("   ", e.Kind, e.What, e.Args, "in", e.In)
			}
		}
		if p.Outcome != "return" {
			p3 = append(p3, "path does not return: "+tr)
			continue
		}
		var tees, copies []Event
		adds, dones, waitIdx, recvIdx, sendIdx := 0, 0, -1, -1, -1
		sendCh, recvCh := "", ""
		goIdx := []int{}
		lastAddBeforeGo := true
		pendingAdd := 0
		upClosed := map[string]string{}
		downCW := false
		lastHalfCloseIdx := -1
		for i, e := range p.Trace {
			switch {
			case e.Kind == "call" && e.What == "io.TeeReader":
				tees = append(tees, e)
			case e.Kind == "call" && e.What == "io.Copy":
				copies = append(copies, e)
			case e.Kind == "call" && e.What == "io.CopyBuffer":
				// the same relay with a buffer of the caller's: it must not be smaller than io.Copy's own (32 KiB), or
				// datagrams of a packet-oriented upstream that the plain relay passes whole are cut to the buffer size
				copies = append(copies, e)
				okBuf := false
				if len(e.Args) == 3 {
					if v, ok := p.Heap["len:"+e.Args[2]]; ok && v.Known && v.N >= 32*1024 {
						okBuf = true
					}
					if m := makeLenRe.FindStringSubmatch(e.Args[2]); m != nil {
						if n, err := strconv.ParseInt(m[1], 10, 64); err == nil && n >= 32*1024 {
							okBuf = true
						}
					}
				}
				if !okBuf {
					p1 = append(p1, "the relay copies with a buffer of its own whose size is not known to be at least io.Copy's 32 KiB ("+strings.Join(e.Args, ", ")+"): a datagram from a packet upstream larger than the buffer is truncated")
				}
			case e.Kind == "call" && e.What == "(*sync.WaitGroup).Add":
				// the amount added (one per goroutine, or all of them at once before the first one starts)
				amount := int64(-1)
				if len(e.Args) == 2 {
					if v, err := strconv.ParseInt(e.Args[1], 10, 64); err == nil {
						amount = v
					}
				}
				if amount < 0 {
					p3 = append(p3, "wg.Add("+strings.Join(e.Args[1:], ",")+") with an amount the evaluation cannot determine")
					amount = 0
				}
				adds += int(amount)
				pendingAdd += int(amount)
			case e.Kind == "go":
				goIdx = append(goIdx, i)
				if strings.Contains(e.What, "proxy$1") {
					if pendingAdd <= 0 {
						lastAddBeforeGo = false
					}
					pendingAdd--
				}
			case (e.Kind == "defer" || e.Kind == "rundefer") && e.What == "(*sync.WaitGroup).Done":
				if e.Kind == "rundefer" {
					dones++
				}
			case e.Kind == "call" && e.What == "(*sync.WaitGroup).Wait":
				waitIdx = i
			case e.Kind == "recv":
				recvIdx, recvCh = i, e.What
			case e.Kind == "send":
				sendIdx, sendCh = i, e.What
			case e.Kind == "call" && strings.HasSuffix(e.What, ".CloseWrite"):
				if strings.HasPrefix(e.Args[0], "up") {
					upClosed[strings.SplitN(e.Args[0], ".", 2)[0]] = "CloseWrite"
					lastHalfCloseIdx = i
				} else if strings.HasPrefix(e.Args[0], "down.Conn") {
					downCW = true
					if waitIdx < 0 {
						p2 = append(p2, "the downstream's write side is closed before the upstream copies have finished")
					}
				}
			case e.Kind == "call" && e.What == "invoke net.Conn.Close":
				// a full close ends both directions of that upstream: it is only right for an upstream that cannot
				// half-close, and only once the client->upstream direction has ended (after the pump's copy)
				if u := e.Args[0]; u == "up0" || u == "up1" {
					idx := map[string]int{"up0": 1, "up1": 2}[u]
					pumpDone := false
					for _, e2 := range p.Trace[:i] {
						if e2.Kind == "call" && (e2.What == "io.Copy" || e2.What == "io.CopyBuffer") && len(e2.Args) >= 1 && strings.Contains(e2.Args[0], "io.Discard") {
							pumpDone = true
						}
					}
					if caps[idx] {
						p2 = append(p2, fmt.Sprintf("upstream %s supports half-close but is closed completely inside proxy() (in %s): whatever still flows in the other direction is cut", u, e.In))
					} else if !pumpDone {
						p2 = append(p2, fmt.Sprintf("upstream %s is closed (in %s) before the client->upstream direction has finished: the client's remaining bytes never reach it", u, e.In))
					}
				}
				upClosed[e.Args[0]] = "Close"
				lastHalfCloseIdx = i
			}
		}
		// R1
		if len(tees) != 2 || tees[0].Args[0] != "down" || tees[0].Args[1] != "up0" || tees[1].Args[0] != "tee(down,up0)" || tees[1].Args[1] != "up1" {
			p1 = append(p1, "the client->upstream tee chain is not down->up0->up1: "+tr)
		}
		back := map[string]bool{}
		pump := ""
		for _, cp := range copies {
			switch {
			case cp.Args[0] == "down":
				back[cp.Args[1]] = true
			case strings.Contains(cp.Args[0], "io.Discard"):
				pump = cp.Args[1]
			}
		}
		if !back["up0"] || !back["up1"] || len(back) != 2 {
			p1 = append(p1, fmt.Sprintf("not exactly one copy-back upstream->downstream per upstream (%v)", back))
		}
		if pump != "tee(tee(down,up0),up1)" {
			p1 = append(p1, "the pump does not drain the last link of the tee chain (drains "+pump+"): some upstream never receives the client's bytes")
		}
		// R2
		for _, u := range []string{"up0", "up1"} {
			if upClosed[u] == "" {
				p2 = append(p2, "upstream "+u+" is neither half-closed nor closed after the client finished sending: it never observes end-of-stream")
			}
		}
		// which kind of close each upstream must get is fixed by the scenario
		for i, u := range []string{"up0", "up1"} {
			want := "Close"
			if caps[i+1] {
				want = "CloseWrite"
			}
			if upClosed[u] != "" && upClosed[u] != want {
				p2 = append(p2, fmt.Sprintf("upstream %s (half-close capable: %v) gets %s instead of %s", u, caps[i+1], upClosed[u], want))
			}
		}
		dcw := caps[0]
		if !dcw && downCW {
			p2 = append(p2, "CloseWrite is called on a downstream that does not support it")
		}
		if dcw && !downCW {
			p2 = append(p2, "the downstream supports half-close but CloseWrite is not called after the upstreams finished")
		}
		// R3
		if adds != 2 || dones != 2 || !lastAddBeforeGo {
			p3 = append(p3, fmt.Sprintf("WaitGroup protocol broken: %d added, %d deferred Done for 2 copy-back goroutines (every goroutine counted before it starts: %v): Wait returns before the copies end, or never", adds, dones, lastAddBeforeGo))
		}
		if waitIdx < 0 || recvIdx < 0 || recvIdx < waitIdx {
			p3 = append(p3, "proxy can return before wg.Wait() and the pump's completion signal")
		}
		if sendIdx >= 0 && recvCh != "" && sendCh != recvCh {
			p3 = append(p3, "the pump signals on a different channel than proxy waits on")
		}
		if sendIdx < 0 {
			p3 = append(p3, "the pump never signals completion")
		} else if !strings.Contains(sendCh, "cap=") || strings.Contains(sendCh, "cap=0)") {
			if lastHalfCloseIdx > sendIdx {
				p3 = append(p3, "the pump's completion signal is an unbuffered send executed before it half-closes the upstreams: it blocks until proxy() passes wg.Wait(), which waits for upstreams that wait for end-of-stream (deadlock when the client half-closes first)")
			}
		}
	}
	pos := c.pos(fn.Pos())
	r.check(len(p1) == 0, "C03.R1", fnName, "fan-out", pos, fmt.Sprintf("%d paths", len(paths)), strings.Join(dedup(p1), "\n"))
	r.check(len(p2) == 0, "C03.R2", fnName, "half-close", pos, fmt.Sprintf("%d paths (both closeWriter arms)", len(paths)), strings.Join(dedup(p2), "\n"))
	r.check(len(p3) == 0, "C03.R3", fnName, "join", pos, fmt.Sprintf("%d paths", len(paths)), strings.Join(dedup(p3), "\n"))
}

// c03Dial evaluates dialPeers; with headers=true the PROXY header obligations (C12) are reported instead.
var makeLenRe = regexp.MustCompile(`^make#\d+\((\d+)\)`)

var dialAddrRe = regexp.MustCompile(`^resolved\(hostport\(peers\[(\d)\]\.address,(\d+)\)\)$`)

func c03Dial(c *Ctx, r *Report, rule string, headers bool) {
	if !headers {
		r.rule(rule, "dialPeers for 2 peers over every outcome of dial / header write and proxy_protocol none/v1/v2, plain and TLS: success returns exactly the dialed connections in order; failure returns nil and an error with every connection dialed so far closed and the failure counted on the peer", 4)
	} else {
		r.rule(rule, "dialPeers sends, per upstream, exactly one header of the configured version (HeaderV1 for 1, HeaderV2 for 2, none for 0) built by FromConn(GetConn(down), false), written to that upstream before it joins the returned connections", 3)
	}
	fnName := "modules/l4proxy.(*Handler).dialPeers"
	fn := c.Fn(fnName)
	if fn == nil {
		r.bad(rule, fnName, "exists", "-", "function not found")
		return
	}
	for _, tlsOn := range []bool{false, true} {
		for _, ver := range []int64{0, 1, 2} {
			if headers && tlsOn {
				continue
			}
			name := fmt.Sprintf("version=%d,tls=%v", ver, tlsOn)
			sc := &Scenario{Name: name, MaxVisit: 6, MaxPaths: 50000,
				Params: map[string]SV{"recv": symRef("h", false)},
				ByType: map[string]SV{"l4proxy.Upstream": symRef("upstream", false), "caddy/v2.Replacer": symRef("repl", false), "layer4.Connection": symRef("down", false)},
				Heap:   map[string]SV{"upstream.peers": symSlice("peers", 2), "h.proxyProtocolVersion": symInt(ver), "upstream.TLS": symNil()},
			}
			if tlsOn {
				sc.Heap["upstream.TLS"] = symRef("tlscfg", false)
				sc.Heap["upstream.tlsConfig"] = symRef("tlsConfig", false)
			}
			sc.Call = func(callee string, args []SV, ev *symEval, st *symState) (SV, bool) {
				switch {
				case callee == "modules/l4proxyprotocol.GetConn":
					return symRef("GetConn("+args[0].Desc+")", false), true
				case callee == "modules/l4proxy.(*Handler).countFailure":
					return symOpaque("counted"), true // its own pairing is decided by C11.R1
				case strings.HasSuffix(callee, ".JoinHostPort") && len(args) == 2:
					return SV{K: "str", Desc: "hostport(" + args[0].Desc + "," + args[1].Desc + ")"}, true
				case strings.HasSuffix(callee, ".ReplaceAll") && len(args) == 3:
					return SV{K: "str", Desc: "resolved(" + args[1].Desc + ")"}, true
				case strings.HasPrefix(callee, "go.uber.org/zap"), strings.HasPrefix(callee, "(*go.uber.org/zap"), strings.HasSuffix(callee, ".JoinHostPort"), strings.HasSuffix(callee, ".ReplaceAll"), strings.HasPrefix(callee, "invoke net.Conn.RemoteAddr"), strings.HasPrefix(callee, "invoke net.Addr.String"):
					return symOpaque(shortCallee(callee)), true
				}
				return SV{}, false
			}
			sc.Alts = func(callee string, args []SV, ev *symEval, st *symState) []CallAlt {
				k := 0
				for _, e := range st.trace {
					if e.Kind == "call" && e.What == callee {
						k++
					}
				}
				tup := func(a, b SV) SV { return SV{K: "tuple", Desc: "t", Elems: []SV{a, b}} }
				switch {
				case callee == "net.Dial" || callee == "crypto/tls.Dial":
					return []CallAlt{
						{Ret: tup(symRef(fmt.Sprintf("conn%d", k), false), symNil()), Note: fmt.Sprintf("ok:conn%d", k)},
						{Ret: tup(symNil(), SV{K: "ref", Known: true, Desc: "dialErr"}), Note: "fail"},
					}
				case strings.HasSuffix(callee, ".WriteTo"):
					return []CallAlt{
						{Ret: tup(SV{K: "int", Desc: "n"}, symNil()), Note: "ok"},
						{Ret: tup(SV{K: "int", Desc: "n"}, SV{K: "ref", Known: true, Desc: "writeErr"}), Note: "fail"},
					}
				}
				return nil
			}
			paths, err := evalPaths(fn, sc)
			if err != nil || len(paths) == 0 {
				r.bad(rule, fnName, name, c.pos(fn.Pos()), fmt.Sprintf("undecided: %v", err))
				continue
			}
			var problems []string
			for _, p := range paths {
				tr := fmtTrace(p)
				if p.Outcome != "return" || len(p.Ret) != 2 {
					problems = append(problems, "no normal return: "+tr)
					continue
				}
				var dialed []string
				closed := map[string]bool{}
				hdrFor := map[string]string{}
				counted := 0
				var fromConn []Event
				for _, e := range p.Trace {
					if e.Kind != "call" {
						continue
					}
					switch {
					case e.What == "net.Dial" || e.What == "crypto/tls.Dial":
						// the address dialled: the placeholder-resolved host:port of this peer, port offset 0
						if !headers && len(e.Args) >= 2 {
							if m := dialAddrRe.FindStringSubmatch(e.Args[1]); m == nil || m[2] != "0" || !strings.Contains(e.Args[0], "peers["+m[1]+"].address") {
								problems = append(problems, "an upstream is dialled at ("+e.Args[0]+", "+e.Args[1]+"), expected the peer's network and its resolved JoinHostPort(0)")
							}
						}
						if strings.HasPrefix(e.Note, "ok:") {
							dialed = append(dialed, strings.TrimPrefix(e.Note, "ok:"))
						}
					case e.What == "invoke net.Conn.Close":
						closed[e.Args[0]] = true
					case strings.HasSuffix(e.What, ".WriteTo"):
						typ := "HeaderV1"
						if strings.Contains(e.What, "HeaderV2") {
							typ = "HeaderV2"
						}
						if prev, dup := hdrFor[e.Args[1]]; dup {
							problems = append(problems, "two headers ("+prev+","+typ+") written to "+e.Args[1])
						}
						hdrFor[e.Args[1]] = typ
					case strings.HasSuffix(e.What, ".FromConn"):
						fromConn = append(fromConn, e)
					case e.What == "modules/l4proxy.(*Handler).countFailure":
						counted++
					}
				}
				failed := !(p.Ret[1].Known && p.Ret[1].Nil)
				var returned []string
				if rs := p.Ret[0]; rs.Len != nil && rs.Len.Known {
					for i := int64(0); i < rs.Len.N; i++ {
						if v, ok := p.Heap[fmt.Sprintf("%s[%d]", rs.Desc, i)]; ok {
							returned = append(returned, v.Desc)
						} else {
							returned = append(returned, "?")
						}
					}
				} else if !(rs.Known && rs.Nil) {
					returned = []string{"?unknown " + rs.Desc}
				}
				if !headers {
					if failed {
						if len(returned) != 0 {
							problems = append(problems, "an error is returned together with connections: "+tr)
						}
						for _, d := range dialed {
							if !closed[d] {
								problems = append(problems, "on failure the dialed connection "+d+" is neither closed nor returned (leaked upstream connection): "+tr)
							}
						}
						if counted != 1 {
							problems = append(problems, fmt.Sprintf("the failure is counted %d times on the peer", counted))
						}
					} else {
						if strings.Join(returned, ",") != strings.Join(dialed, ",") || len(dialed) != 2 {
							problems = append(problems, fmt.Sprintf("success must return the 2 dialed connections in order, returns [%s] of dialed [%s]", strings.Join(returned, ","), strings.Join(dialed, ",")))
						}
						for _, d := range dialed {
							if closed[d] {
								problems = append(problems, "a returned connection was closed: "+d)
							}
						}
					}
				} else {
					want := map[int64]string{0: "", 1: "HeaderV1", 2: "HeaderV2"}[ver]
					for _, d := range dialed {
						got := hdrFor[d]
						// a failed write still counts as attempted
						if got != want {
							problems = append(problems, fmt.Sprintf("upstream %s gets header %q, configured version %d requires %q", d, got, ver, want))
						}
					}
					for _, fc := range fromConn {
						if len(fc.Args) != 3 || fc.Args[1] != "GetConn(down)" || fc.Args[2] != "false" {
							problems = append(problems, "the header is not built by FromConn(GetConn(down), false) (client's effective addresses): "+fc.String())
						}
					}
					if !failed {
						for _, d := range returned {
							if want != "" && hdrFor[d] == "" {
								problems = append(problems, "connection "+d+" is returned for relaying without the header having been written")
							}
						}
					}
				}
			}
			r.check(len(problems) == 0, rule, fnName, name, c.pos(fn.Pos()), fmt.Sprintf("%d paths", len(paths)), strings.Join(dedup(problems), "\n"))
		}
	}
}

// c03Wrappers: half-close must get through every connection wrapper that a handler can put in front of the socket.
// The wrappers are found in the code: every concrete type that is stored as a Connection's Conn or handed to
// Connection.Wrap and that embeds a net.Conn. Such a type either offers CloseWrite itself or can be looked
// through by the proxy's half-close (it exposes NetConn() net.Conn, or the proxy package asserts on it).
func c03Wrappers(c *Ctx, r *Report, rule string) {
	r.rule(rule, "every connection wrapper the module installs in front of a client's socket (stored as Connection.Conn or passed to Wrap) and that embeds a net.Conn offers CloseWrite, exposes NetConn() net.Conn, or is unwrapped by type in the proxy package: the downstream half-close reaches the socket behind throttle, tee, proxy_protocol and TLS", 4)
	type inst struct {
		t   types.Type
		pos string
	}
	seen := map[string]inst{}
	add := func(v ssa.Value, at ssa.Instruction) {
		mi, ok := v.(*ssa.MakeInterface)
		if !ok {
			return
		}
		t := mi.X.Type()
		if isConnPtr(t) {
			return
		}
		seen[typeStr(t)] = inst{t, c.ipos(at)}
	}
	for _, fn := range c.Funcs {
		for _, b := range fn.Blocks {
			for _, in := range b.Instrs {
				switch x := in.(type) {
				case *ssa.Store:
					if _, sn, f, ok := fieldAddr(x.Addr); ok && sn == "layer4.Connection" && f == "Conn" {
						add(x.Val, in)
					}
				case ssa.CallInstruction:
					if calleeID(x) == "layer4.(*Connection).Wrap" && len(x.Common().Args) == 2 {
						add(x.Common().Args[1], in)
					}
				}
			}
		}
	}
	// types the proxy package asserts on (its unwrapping helper)
	asserted := map[string]bool{}
	for _, fn := range c.Funcs {
		if fn.Pkg == nil || fn.Pkg.Pkg.Path() != modPath+"/modules/l4proxy" {
			continue
		}
		for _, b := range fn.Blocks {
			for _, in := range b.Instrs {
				if ta, ok := in.(*ssa.TypeAssert); ok {
					asserted[typeStr(ta.AssertedType)] = true
				}
			}
		}
	}
	var names []string
	for k := range seen {
		names = append(names, k)
	}
	sort.Strings(names)
	netConn := netConnIface(c)
	for _, k := range names {
		t := seen[k].t
		st := derefStruct(t)
		wraps := false
		if st != nil && netConn != nil {
			for i := 0; i < st.NumFields(); i++ {
				if ft := st.Field(i).Type(); types.Implements(ft, netConn) || types.Identical(ft.Underlying(), netConn) {
					wraps = true
				}
			}
		}
		if !wraps {
			r.ok(rule, k, "wrapper", seen[k].pos, "not a wrapper around another net.Conn")
			continue
		}
		if why, ok := halfCloseExempt[k]; ok {
			r.ok(rule, k, "wrapper", seen[k].pos, "reviewed exception: "+why)
			continue
		}
		ms := types.NewMethodSet(t)
		has := func(name string) bool { return ms.Lookup(nil, name) != nil || (ms.Lookup(pkgOf(t), name) != nil) }
		ok := has("CloseWrite") || has("NetConn") || asserted[typeStr(t)]
		how := "offers CloseWrite"
		switch {
		case has("CloseWrite"):
		case has("NetConn"):
			how = "exposes NetConn()"
		case asserted[typeStr(t)]:
			how = "unwrapped by type in the proxy package"
		}
		r.check(ok, rule, k, "wrapper", seen[k].pos, how, "this type is installed in front of the client's socket, embeds a net.Conn, has no CloseWrite and cannot be looked through (no NetConn(), not unwrapped by the proxy): when the upstreams have finished sending, a client behind it never observes end-of-stream and client and proxy wait for each other")
	}
}

func pkgOf(t types.Type) *types.Package {
	if n, ok := deref(t).(*types.Named); ok {
		return n.Obj().Pkg()
	}
	return nil
}

// halfCloseExempt: wrappers that must not pass a half-close on, each with the reason.
var halfCloseExempt = map[string]string{
	"modules/l4tee.teeConn": "the branch of a tee shares the client's write side with the main chain, which may still be sending; only the main chain (nextConn) may half-close the client",
}

// c03Write: what the relay writes to the client goes through Connection.Write (and the wrappers' Write); it must
// reach the socket unchanged.
func c03Write(c *Ctx, r *Report, rule string) {
	r.rule(rule, "Connection.Write (path evaluation): exactly one Write(p) on the underlying connection with the caller's buffer, whose (n, err) is returned unchanged", 1)
	fnName := "layer4.(*Connection).Write"
	fn := c.Fn(fnName)
	if fn == nil {
		r.bad(rule, fnName, "exists", "-", "function not found")
		return
	}
	sc := &Scenario{Name: "write", Params: map[string]SV{"recv": symRef("cx", false), "p0": symSlice("p", 7)}, Heap: map[string]SV{"cx.Conn": symRef("sock", false)}}
	sc.Call = func(callee string, args []SV, ev *symEval, st *symState) (SV, bool) {
		if strings.HasPrefix(callee, "(*sync/atomic.") {
			return symOpaque("atomic"), true
		}
		return SV{}, false
	}
	paths, err := evalPaths(fn, sc)
	if err != nil || len(paths) == 0 {
		r.bad(rule, fnName, "write through", c.pos(fn.Pos()), fmt.Sprintf("undecided: %v", err))
		return
	}
	var problems []string
	for _, p := range paths {
		var writes []Event
		for _, e := range p.Trace {
			if e.Kind == "call" && e.What == "invoke net.Conn.Write" {
				writes = append(writes, e)
			}
		}
		if len(writes) != 1 || len(writes[0].Args) != 2 || writes[0].Args[0] != "sock" || writes[0].Args[1] != "p" {
			problems = append(problems, "the bytes are not written once, unchanged, to the underlying connection: "+fmtTrace(p))
			continue
		}
		if len(p.Ret) != 2 || !strings.HasPrefix(p.Ret[0].Desc, "invoke.Write#") || !strings.HasSuffix(p.Ret[0].Desc, ".0") || !strings.HasSuffix(p.Ret[1].Desc, ".1") {
			problems = append(problems, "the result of the underlying write is not returned unchanged: ("+p.retDesc()+")")
		}
	}
	r.check(len(problems) == 0, rule, fnName, "write through", c.pos(fn.Pos()), fmt.Sprintf("%d path(s)", len(paths)), strings.Join(dedup(problems), "; "))
}
