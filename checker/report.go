package main

import (
	"encoding/json"
	"fmt"
	"os"
	"path/filepath"
	"sort"
	"strings"
)

// Obligation is one decided rule instance.
type Obligation struct {
	Rule   string `json:"rule"`   // e.g. "C01.R1"
	Key    string `json:"key"`    // position-free instance key: rule|function|construct
	Pos    string `json:"pos"`    // file:line, for the reader only
	OK     bool   `json:"ok"`     // rule holds for this instance
	Detail string `json:"detail"` // what was established / what is wrong (path, operands)
}

type ruleInfo struct {
	Text  string
	Floor int
}

// Report collects the obligations of one property run.
type Report struct {
	Prop   string
	Obls   []Obligation
	rules  map[string]*ruleInfo
	order  []string
	Notes  []string
	Extras map[string]interface{}
}

func newReport(prop string) *Report {
	return &Report{Prop: prop, rules: map[string]*ruleInfo{}, Extras: map[string]interface{}{}}
}

// rule declares a rule with its text and the minimum number of instances that must be
// found (a rule that matches fewer instances than confirmed by hand fails: no vacuous pass).
func (r *Report) rule(id, text string, floor int) {
	if _, ok := r.rules[id]; !ok {
		r.order = append(r.order, id)
	}
	r.rules[id] = &ruleInfo{Text: text, Floor: floor}
}

func key(rule, fn, construct string) string { return rule + "|" + fn + "|" + construct }

func (r *Report) ok(rule, fn, construct, pos, detail string) {
	r.Obls = append(r.Obls, Obligation{Rule: rule, Key: key(rule, fn, construct), Pos: pos, OK: true, Detail: detail})
}

func (r *Report) bad(rule, fn, construct, pos, detail string) {
	r.Obls = append(r.Obls, Obligation{Rule: rule, Key: key(rule, fn, construct), Pos: pos, OK: false, Detail: detail})
}

func (r *Report) check(cond bool, rule, fn, construct, pos, okDetail, badDetail string) bool {
	if cond {
		r.ok(rule, fn, construct, pos, okDetail)
	} else {
		r.bad(rule, fn, construct, pos, badDetail)
	}
	return cond
}

// finish adds floor violations and returns the failed obligations.
func (r *Report) finish() {
	count := map[string]int{}
	for _, o := range r.Obls {
		count[o.Rule]++
	}
	for _, id := range r.order {
		ri := r.rules[id]
		if count[id] < ri.Floor {
			r.Obls = append(r.Obls, Obligation{Rule: id, Key: key(id, "-", "instance-floor"), Pos: "-", OK: false,
				Detail: fmt.Sprintf("rule matched %d instance(s), fewer than the %d confirmed by hand on the pinned tree: the rule's anchors were not found (renamed/removed?) - the rule cannot pass vacuously", count[id], ri.Floor)})
		}
	}
	for _, o := range r.Obls {
		if _, ok := r.rules[o.Rule]; !ok {
			panic("obligation for undeclared rule " + o.Rule)
		}
	}
}

// ---- known findings ----

type knownEntry struct {
	Property string `json:"property"`
	Key      string `json:"key"`
	What     string `json:"what"`
	Commit   string `json:"commit,omitempty"`
}

type knownFile struct {
	Known []knownEntry `json:"known"`
	Fixed []knownEntry `json:"fixed"`
}

func loadKnown(path string) (*knownFile, error) {
	kf := &knownFile{}
	raw, err := os.ReadFile(path)
	if err != nil {
		if os.IsNotExist(err) {
			return kf, nil
		}
		return nil, err
	}
	if err := json.Unmarshal(raw, kf); err != nil {
		return nil, fmt.Errorf("%s: %v", path, err)
	}
	return kf, nil
}

// ---- evidence ----

type ruleSummary struct {
	Rule       string `json:"rule"`
	Text       string `json:"text"`
	Instances  int    `json:"instances"`
	Discharged int    `json:"discharged"`
	Floor      int    `json:"floor"`
}

func (r *Report) write(verifDir2, tier string, seed int64, wall float64, c *Ctx, kf *knownFile, explanation string, notDecided string, selftest map[string]interface{}) (violations int, knownHit []knownEntry) {
	known := map[string]knownEntry{}
	for _, k := range kf.Known {
		if k.Property == r.Prop {
			known[k.Key] = k
		}
	}
	var viol []Obligation
	seenKnown := map[string]bool{}
	for _, o := range r.Obls {
		if o.OK {
			continue
		}
		if k, ok := known[o.Key]; ok {
			if !seenKnown[o.Key] {
				seenKnown[o.Key] = true
				knownHit = append(knownHit, k)
			}
			continue
		}
		viol = append(viol, o)
	}
	// summaries
	var sums []ruleSummary
	for _, id := range r.order {
		s := ruleSummary{Rule: id, Text: r.rules[id].Text, Floor: r.rules[id].Floor}
		for _, o := range r.Obls {
			if o.Rule == id {
				s.Instances++
				if o.OK {
					s.Discharged++
				}
			}
		}
		sums = append(sums, s)
	}
	total, disch := 0, 0
	for _, o := range r.Obls {
		total++
		if o.OK {
			disch++
		}
	}
	// samples: up to 3 per rule, failed first
	var samples []Obligation
	per := map[string]int{}
	obs := append([]Obligation(nil), r.Obls...)
	sort.SliceStable(obs, func(i, j int) bool { return !obs[i].OK && obs[j].OK })
	for _, o := range obs {
		if per[o.Rule] < 3 || !o.OK {
			per[o.Rule]++
			samples = append(samples, o)
		}
	}
	cov := map[string]interface{}{
		"explanation":     explanation + " The text names the rules the check started with; every rule applied in this run, including those added later, is listed with its own statement, instance count and floor under 'rules'.",
		"not_decided":     notDecided,
		"obligations":     total,
		"discharged":      disch,
		"rules":           sums,
		"samples":         samples,
		"checker_cmd":     strings.Join(os.Args, " "),
		"exhaustive":      true,
		"known_findings":  knownHit,
		"all_obligations": r.Obls,
		"trusted_base":    trustedBase,
		"analysis_notes":  r.Notes,
	}
	if c != nil {
		var pk []string
		for _, p := range c.Pkgs {
			pk = append(pk, short(p.PkgPath))
		}
		cov["packages_analysed"] = len(c.Pkgs)
		cov["package_list"] = pk
		cov["functions_analysed"] = len(c.Funcs)
		cov["deps_with_syntax"] = c.AllDeps
	}
	for k, v := range r.Extras {
		cov[k] = v
	}
	if selftest != nil {
		cov["selftest"] = selftest
	}
	ev := map[string]interface{}{
		"property_id": r.Prop,
		"tier":        tier,
		"seed":        seed,
		"level":       "other",
		"coverage":    cov,
		"assumptions": []string{
			"go/types, golang.org/x/tools go/packages + go/ssa model the program faithfully",
			"documented contracts of the standard library and third-party libraries named in trusted_base hold",
			"only the structural necessary conditions named in 'rules' are decided; see not_decided",
		},
		"wall_s":     wall,
		"violations": len(viol),
	}
	_ = os.MkdirAll(filepath.Join(verifDir2, "evidence"), 0o755)
	out, _ := json.MarshalIndent(ev, "", " ")
	_ = os.WriteFile(filepath.Join(verifDir2, "evidence", r.Prop+".json"), out, 0o644)
	vpath := filepath.Join(verifDir2, "evidence", r.Prop+".violations.json")
	if len(viol) > 0 {
		vout, _ := json.MarshalIndent(map[string]interface{}{"property": r.Prop, "violations": viol, "rules": sums}, "", " ")
		_ = os.WriteFile(vpath, vout, 0o644)
	} else {
		_ = os.Remove(vpath)
	}
	return len(viol), knownHit
}

var trustedBase = []string{
	"go/types and golang.org/x/tools v0.29.0 (go/packages, go/ssa, go/cfg)",
	"the Go compiler's prove pass (bounds-check elimination report) for C04/C10",
	"contracts of io.ReadFull, io.ReadAtLeast, io.Copy, io.TeeReader, bufio, sync.Pool, sync/atomic, crypto/tls, x/time/rate, net.Conn deadlines",
	"third-party libraries: mastercactapus/proxyprotocol, things-go/go-socks5, miekg/dns, quic-go, caddy core",
}
