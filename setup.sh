#!/bin/sh
# Build the checker from files on disk only (offline).
set -e
cd "$(dirname "$0")"
export GOFLAGS=-mod=mod GOPROXY=off GOSUMDB=off GOTOOLCHAIN=local CGO_ENABLED=0
unset GOWORK
mkdir -p bin evidence
(cd checker && go build -o ../bin/l4verify .)
echo "built bin/l4verify"
