// place in: modules/l4tls/
package l4tls

import (
	"errors"
	"io"
	"net"
	"testing"

	"github.com/caddyserver/caddy/v2"
	"go.uber.org/zap"

	"github.com/mholt/caddy-l4/layer4"
)

// demoC04NMatch feeds data to a tls matcher without nested handshake matchers
// and converts a panic into a test failure.
func demoC04NMatch(t *testing.T, data []byte) (matched bool, err error) {
	t.Helper()

	m := &MatchTLS{logger: zap.NewNop()}

	in, out := net.Pipe()
	defer func() {
		_, _ = io.Copy(io.Discard, out)
		_ = out.Close()
	}()
	go func() {
		_, _ = in.Write(data)
		_ = in.Close()
	}()

	cx := layer4.WrapConnection(out, []byte{}, zap.NewNop())

	defer func() {
		if r := recover(); r != nil {
			t.Fatalf("MatchTLS.Match panicked on remote input % x: %v", data, r)
		}
	}()
	return m.Match(cx)
}

// A handshake record that is too short to hold a handshake header
// (record length 0..3) must produce a verdict or an error, not a panic.
func TestDemoC04N_ShortHandshakeRecordGivesVerdict(t *testing.T) {
	for _, data := range [][]byte{
		{0x16, 0x03, 0x01, 0x00, 0x00},
		{0x16, 0x03, 0x01, 0x00, 0x01, 0x01},
		{0x16, 0x03, 0x03, 0x00, 0x02, 0x01, 0x00},
		{0x16, 0x03, 0x03, 0x00, 0x03, 0x01, 0x00, 0x00},
		{0x16, 0x03, 0x01, 0x00, 0x00, 0x47, 0x45, 0x54, 0x20}, // trailing bytes after an empty record
	} {
		_, err := demoC04NMatch(t, data)
		if err != nil && !errors.Is(err, io.EOF) && !errors.Is(err, io.ErrUnexpectedEOF) {
			t.Fatalf("unexpected error for % x: %v", data, err)
		}
	}
}

// The server name of a regular ClientHello is still extracted.
func TestDemoC04N_RegularClientHelloIsParsed(t *testing.T) {
	sni := "example.com"
	ext := []byte{0x00, 0x00} // server_name
	ext = append(ext, 0x00, byte(len(sni)+5), 0x00, byte(len(sni)+3), 0x00, 0x00, byte(len(sni)))
	ext = append(ext, sni...)

	body := []byte{0x03, 0x03}               // legacy_version
	body = append(body, make([]byte, 32)...) // random
	body = append(body, 0x00)                // session id
	body = append(body, 0x00, 0x02, 0x13, 0x01)
	body = append(body, 0x01, 0x00) // compression methods
	body = append(body, 0x00, byte(len(ext)))
	body = append(body, ext...)

	hs := append([]byte{0x01, 0x00, 0x00, byte(len(body))}, body...)
	rec := append([]byte{0x16, 0x03, 0x01, 0x00, byte(len(hs))}, hs...)

	m := &MatchTLS{logger: zap.NewNop()}
	in, out := net.Pipe()
	defer func() { _ = out.Close() }()
	go func() {
		_, _ = in.Write(rec)
		_ = in.Close()
	}()
	cx := layer4.WrapConnection(out, []byte{}, zap.NewNop())
	matched, err := m.Match(cx)
	if err != nil || !matched {
		t.Fatalf("regular ClientHello: matched=%v err=%v", matched, err)
	}
	repl := cx.Context.Value(layer4.ReplacerCtxKey).(*caddy.Replacer)
	if got, _ := repl.GetString("l4.tls.server_name"); got != sni {
		t.Fatalf("server name: got %q, want %q", got, sni)
	}
}
