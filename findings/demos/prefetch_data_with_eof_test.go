// place in: layer4/
// Connection.prefetch treats a read that returns data together with an error (n > 0, io.EOF) as a failed read: crypto/tls does exactly that for a TLS 1.2 client whose close_notify alert arrives in the same segment as its last data record, so behind TLS termination the router drops a connection whose complete request is already in the matching buffer - no handler ever reads those bytes, while the same bytes sent in two segments are handled ("no byte lost", "however the client's bytes were split into network reads").
package layer4

import (
	"crypto/ecdsa"
	"crypto/elliptic"
	"crypto/rand"
	"crypto/tls"
	"crypto/x509"
	"crypto/x509/pkix"
	"io"
	"math/big"
	"net"
	"sync"
	"testing"
	"time"

	"go.uber.org/zap"
)

// foundCoalescingConn is the client's side of the transport: while hold is set it
// collects what is written and sends it in one piece on flush - the way a TCP
// stack sends a short request and the close_notify that follows it at once.
type foundCoalescingConn struct {
	net.Conn
	mu      sync.Mutex
	hold    bool
	pending []byte
}

func (c *foundCoalescingConn) Write(p []byte) (int, error) {
	c.mu.Lock()
	defer c.mu.Unlock()
	if c.hold {
		c.pending = append(c.pending, p...)
		return len(p), nil
	}
	return c.Conn.Write(p)
}

// crypto/tls arms a write deadline in the past after it has sent close_notify;
// the segment held back here leaves afterwards.
func (c *foundCoalescingConn) SetWriteDeadline(time.Time) error { return nil }

func (c *foundCoalescingConn) flush() error {
	c.mu.Lock()
	defer c.mu.Unlock()
	c.hold = false
	_, err := c.Conn.Write(c.pending)
	c.pending = nil
	return err
}

type foundReadNMatcher struct{ n int }

func (m foundReadNMatcher) Match(cx *Connection) (bool, error) {
	buf := make([]byte, m.n)
	if _, err := io.ReadFull(cx, buf); err != nil {
		return false, err
	}
	return true, nil
}

func foundSelfSignedCert(t *testing.T) tls.Certificate {
	t.Helper()
	key, err := ecdsa.GenerateKey(elliptic.P256(), rand.Reader)
	if err != nil {
		t.Fatal(err)
	}
	tmpl := &x509.Certificate{
		SerialNumber: big.NewInt(1),
		Subject:      pkix.Name{CommonName: "localhost"},
		DNSNames:     []string{"localhost"},
		NotBefore:    time.Now().Add(-time.Hour),
		NotAfter:     time.Now().Add(time.Hour),
	}
	der, err := x509.CreateCertificate(rand.Reader, tmpl, tmpl, &key.PublicKey, key)
	if err != nil {
		t.Fatal(err)
	}
	return tls.Certificate{Certificate: [][]byte{der}, PrivateKey: key}
}

func TestFound_PrefetchDropsDataThatArrivesTogetherWithEOF(t *testing.T) {
	t.Run("request and close_notify in two segments", func(t *testing.T) { foundRequestThenClose(t, false) })
	t.Run("request and close_notify in one segment", func(t *testing.T) { foundRequestThenClose(t, true) })
}

func foundRequestThenClose(t *testing.T, oneSegment bool) {
	const request = "PING 0123456789\n"

	cert := foundSelfSignedCert(t)

	var got string
	handled := false

	routes := RouteList{
		// route 1: terminate TLS exactly like the tls handler does (tls.Server over cx, then Wrap)
		&Route{
			middleware: []Middleware{wrapHandler(NextHandlerFunc(func(cx *Connection, next Handler) error {
				tlsConn := tls.Server(cx, &tls.Config{Certificates: []tls.Certificate{cert}})
				if err := tlsConn.Handshake(); err != nil {
					return err
				}
				return next.Handle(cx.Wrap(tlsConn))
			}))},
		},
		// route 2: a matcher that looks at the decrypted request, and a handler that reads it
		&Route{
			matcherSets: MatcherSets{MatcherSet{foundReadNMatcher{len(request)}}},
			middleware: []Middleware{wrapHandler(NextHandlerFunc(func(cx *Connection, _ Handler) error {
				handled = true
				all, _ := io.ReadAll(cx)
				got = string(all)
				return nil
			}))},
		},
	}
	compiled := routes.Compile(zap.NewNop(), 2*time.Second, nopHandler{})

	ln, err := net.Listen("tcp", "127.0.0.1:0")
	if err != nil {
		t.Fatal(err)
	}
	defer func() { _ = ln.Close() }()
	clientRaw, err := net.Dial("tcp", ln.Addr().String())
	if err != nil {
		t.Fatal(err)
	}
	defer func() { _ = clientRaw.Close() }()
	serverRaw, err := ln.Accept()
	if err != nil {
		t.Fatal(err)
	}
	defer func() { _ = serverRaw.Close() }()

	clientErr := make(chan error, 1)
	go func() {
		cc := &foundCoalescingConn{Conn: clientRaw}
		client := tls.Client(cc, &tls.Config{InsecureSkipVerify: true, ServerName: "localhost", MaxVersion: tls.VersionTLS12})
		if err := client.Handshake(); err != nil {
			clientErr <- err
			return
		}
		// the request and the close_notify leave the client in one segment, or one after the other
		cc.mu.Lock()
		cc.hold = oneSegment
		cc.mu.Unlock()
		if _, err := client.Write([]byte(request)); err != nil {
			clientErr <- err
			return
		}
		if !oneSegment {
			time.Sleep(100 * time.Millisecond)
		}
		if err := client.CloseWrite(); err != nil {
			clientErr <- err
			return
		}
		clientErr <- cc.flush()
	}()

	cx := WrapConnection(serverRaw, make([]byte, 0, prefetchChunkSize), zap.NewNop())
	done := make(chan error, 1)
	go func() { done <- compiled.Handle(cx) }()

	select {
	case err := <-done:
		if err != nil {
			t.Fatalf("handling: %v", err)
		}
	case <-time.After(5 * time.Second):
		t.Fatal("routing did not finish")
	}
	if err := <-clientErr; err != nil {
		t.Fatalf("client: %v", err)
	}

	if !handled {
		t.Fatalf("the handler behind TLS termination was never called although the client sent the complete request %q before closing", request)
	}
	if got != request {
		t.Fatalf("handler read %q, expected %q", got, request)
	}
}
