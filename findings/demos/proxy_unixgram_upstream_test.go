package l4proxy

import (
	"context"
	"net"
	"os"
	"path/filepath"
	"testing"
	"time"

	"github.com/caddyserver/caddy/v2"
	"go.uber.org/zap"

	"github.com/mholt/caddy-l4/layer4"
)

// A client talks through the proxy handler to an upstream dialed as unixgram/<path>. When the client has
// finished (it closes its connection) the handler must return and the upstream connection must have been closed.
func TestUnixgramUpstreamHandlerReturns(t *testing.T) {
	ctx, cancel := caddy.NewContext(caddy.Context{Context: context.Background()})
	defer cancel()

	dir, err := os.MkdirTemp("", "ugram")
	if err != nil {
		t.Fatal(err)
	}
	defer func() { _ = os.RemoveAll(dir) }()
	sock := filepath.Join(dir, "up.sock")

	up, err := net.ListenUnixgram("unixgram", &net.UnixAddr{Name: sock, Net: "unixgram"})
	if err != nil {
		t.Fatalf("listen unixgram: %v", err)
	}
	defer func() { _ = up.Close() }()
	got := make(chan string, 4)
	go func() {
		buf := make([]byte, 2048)
		for {
			n, _, err := up.ReadFromUnix(buf)
			if err != nil {
				return
			}
			got <- string(buf[:n])
		}
	}()

	h := &Handler{Upstreams: UpstreamPool{&Upstream{Dial: []string{"unixgram/" + sock}}}}
	if err = h.Provision(ctx); err != nil {
		t.Fatalf("provision: %v", err)
	}
	defer func() { _ = h.Cleanup() }()

	lnS, err := net.Listen("tcp", "127.0.0.1:0")
	if err != nil {
		t.Fatalf("listen: %v", err)
	}
	defer func() { _ = lnS.Close() }()
	handled := make(chan error, 1)
	go func() {
		c, err := lnS.Accept()
		if err != nil {
			handled <- err
			return
		}
		defer func() { _ = c.Close() }()
		handled <- h.Handle(layer4.WrapConnection(c, []byte{}, zap.NewNop()), nil)
	}()

	client, err := net.Dial("tcp", lnS.Addr().String())
	if err != nil {
		t.Fatalf("dial: %v", err)
	}
	if _, err = client.Write([]byte("hello")); err != nil {
		t.Fatalf("client write: %v", err)
	}
	select {
	case s := <-got:
		if s != "hello" {
			t.Fatalf("upstream received %q", s)
		}
	case <-time.After(3 * time.Second):
		t.Fatalf("upstream received nothing")
	}
	_ = client.Close() // the client is done

	select {
	case err = <-handled:
		if err != nil {
			t.Fatalf("handler: %v", err)
		}
	case <-time.After(3 * time.Second):
		t.Fatalf("the handler has not returned 3s after the client finished: the upstream connection stays open")
	}
}
