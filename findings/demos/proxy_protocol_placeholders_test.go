package l4proxyprotocol

import (
	"context"
	"fmt"
	"net"
	"testing"
	"time"

	"github.com/caddyserver/caddy/v2"
	"go.uber.org/zap"

	"github.com/mholt/caddy-l4/layer4"
)

// "later matchers, placeholders and handlers see the source and destination addresses the header declares"
func TestPlaceholdersAfterAcceptedHeader(t *testing.T) {
	ctx, cancel := caddy.NewContext(caddy.Context{Context: context.Background()})
	defer cancel()
	h := &Handler{}
	if err := h.Provision(ctx); err != nil {
		t.Fatal(err)
	}
	in, out := net.Pipe()
	defer func() { _, _ = in.Close(), out.Close() }()
	go func() { _, _ = out.Write([]byte("PROXY TCP4 203.0.113.7 198.51.100.9 40000 443\r\nhello")) }()
	cx := layer4.WrapConnection(in, []byte{}, zap.NewNop())
	var remote, local, phRemote, phLocal string
	err := h.Handle(cx, layer4.HandlerFunc(func(c *layer4.Connection) error {
		repl := c.Context.Value(layer4.ReplacerCtxKey).(*caddy.Replacer)
		remote, local = c.RemoteAddr().String(), c.LocalAddr().String()
		phRemote, phLocal = repl.ReplaceAll("{l4.conn.remote_addr}", ""), repl.ReplaceAll("{l4.conn.local_addr}", "")
		return nil
	}))
	if err != nil {
		t.Fatal(err)
	}
	_ = time.Second
	if remote != "203.0.113.7:40000" || local != "198.51.100.9:443" {
		t.Fatalf("the connection's addresses are %s / %s", remote, local)
	}
	if phRemote != remote || phLocal != local {
		t.Errorf("the connection handed on has %s / %s, the placeholders say %s", remote, local, fmt.Sprintf("{l4.conn.remote_addr}=%s {l4.conn.local_addr}=%s", phRemote, phLocal))
	}
}
