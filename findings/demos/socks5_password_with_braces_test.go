package l4socks

import (
	"bytes"
	"context"
	"encoding/binary"
	"io"
	"net"
	"testing"
	"time"

	"github.com/caddyserver/caddy/v2"
	"go.uber.org/zap"

	"github.com/mholt/caddy-l4/layer4"
)

// Braces that are no placeholder are part of the password: the client that knows "a{b}c" gets in, the one that
// presents "ac" (what is left when the braces are cut out) does not, and nothing is dialed for it.
func TestPasswordWithBracesIsThePassword(t *testing.T) {
	ctx, cancel := caddy.NewContext(caddy.Context{Context: context.Background()})
	defer cancel()

	handler := &Socks5Handler{
		Credentials: map[string]string{"alice": "a{b}c"},
	}
	if err := handler.Provision(ctx); err != nil {
		t.Fatalf("provision: %v", err)
	}

	target, err := net.Listen("tcp", "127.0.0.1:0")
	if err != nil {
		t.Fatal(err)
	}
	defer func() { _ = target.Close() }()
	accepted := make(chan struct{}, 4)
	go func() {
		for {
			c, err := target.Accept()
			if err != nil {
				return
			}
			accepted <- struct{}{}
			_ = c.Close()
		}
	}()
	port := make([]byte, 2)
	binary.BigEndian.PutUint16(port, uint16(target.Addr().(*net.TCPAddr).Port))

	// login presents alice with the given password and, if accepted, asks for a CONNECT
	// to the target; it returns the status byte of the authentication reply
	login := func(password string) byte {
		t.Helper()
		in, out := net.Pipe()
		cx := layer4.WrapConnection(out, []byte{}, zap.NewNop())
		done := make(chan struct{})
		go func() {
			defer close(done)
			_ = handler.Handle(cx, nil)
		}()
		defer func() {
			_ = in.Close()
			_ = out.Close()
			<-done
		}()
		_ = in.SetDeadline(time.Now().Add(5 * time.Second))

		if _, err := in.Write([]byte{0x05, 0x01, 0x02}); err != nil {
			t.Fatalf("write: %v", err)
		}
		reply := make([]byte, 2)
		if _, err := io.ReadFull(in, reply); err != nil || !bytes.Equal(reply, []byte{0x05, 0x02}) {
			t.Fatalf("method selection: % x, %v", reply, err)
		}
		msg := append([]byte{0x01, 0x05}, "alice"...)
		msg = append(msg, byte(len(password)))
		msg = append(msg, password...)
		if _, err := in.Write(msg); err != nil {
			t.Fatalf("write: %v", err)
		}
		if _, err := io.ReadFull(in, reply); err != nil {
			t.Fatalf("read: %v", err)
		}
		if reply[1] == 0x00 {
			_, _ = in.Write([]byte{0x05, 0x01, 0x00, 0x01, 0x7f, 0x00, 0x00, 0x01, port[0], port[1]})
			_, _ = io.ReadFull(in, make([]byte, 10))
		}
		return reply[1]
	}

	if status := login("ac"); status == 0x00 {
		t.Errorf("the password a{b}c with its braces cut out (ac) was accepted")
	}
	select {
	case <-accepted:
		t.Errorf("an outbound connection was made for a client that didn't know the password")
	case <-time.After(200 * time.Millisecond):
	}

	if status := login("a{b}c"); status != 0x00 {
		t.Errorf("the configured password a{b}c was refused (status %#x)", status)
	}
}
