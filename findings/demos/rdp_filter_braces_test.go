// place in: modules/l4rdp/
// custom_info and cookie_hash go through Replacer.ReplaceAll at match time, which deletes whatever stands in braces and is no placeholder it knows: the filter "{lb-1}" becomes "" (= no filter, every custom info matches) and "a{b}c" becomes "ac" - breaks 'a message violating a filter does not match' and 'every message satisfying the filters matches' (same kind of defect as the fixes f2890cf and ed27471).
package l4rdp

import (
	"context"
	"io"
	"net"
	"testing"

	"github.com/caddyserver/caddy/v2"
	"go.uber.org/zap"

	"github.com/mholt/caddy-l4/layer4"
)

func foundBracesVerdict(t *testing.T, m *MatchRDP, data []byte) bool {
	t.Helper()
	ctx, cancel := caddy.NewContext(caddy.Context{Context: context.Background()})
	defer cancel()
	if err := m.Provision(ctx); err != nil {
		t.Fatalf("Provision: %v", err)
	}
	in, out := net.Pipe()
	defer func() {
		_, _ = io.Copy(io.Discard, out)
		_ = out.Close()
	}()
	cx := layer4.WrapConnection(out, []byte{}, zap.NewNop())
	go func() {
		_, _ = in.Write(data)
		_ = in.Close()
	}()
	matched, err := m.Match(cx)
	if err != nil && err != io.EOF && err != io.ErrUnexpectedEOF {
		t.Fatalf("Match: %v", err)
	}
	return matched
}

// foundBracesRequest builds an RDP connection request whose payload is the given line (CR LF is added).
func foundBracesRequest(line string) []byte {
	payload := append([]byte(line), 0x0D, 0x0A)
	x224 := []byte{byte(6 + len(payload)), 0xE0, 0x00, 0x00, 0x00, 0x00, 0x00}
	total := 4 + len(x224) + len(payload)
	data := []byte{0x03, 0x00, byte(total >> 8), byte(total)}
	data = append(data, x224...)
	return append(data, payload...)
}

func TestFound_RDPCustomInfoWithBraces(t *testing.T) {
	filter := "{lb-1}"
	if !foundBracesVerdict(t, &MatchRDP{CustomInfo: filter}, foundBracesRequest("{lb-1}")) {
		t.Errorf("custom_info %q did not match a request with this load balance info", filter)
	}
	if foundBracesVerdict(t, &MatchRDP{CustomInfo: filter}, foundBracesRequest("some other info")) {
		t.Errorf("custom_info %q matched a request with the load balance info %q", filter, "some other info")
	}
}

func TestFound_RDPCookieHashWithBraces(t *testing.T) {
	filter := "a{b}c"
	if !foundBracesVerdict(t, &MatchRDP{CookieHash: filter}, foundBracesRequest(RDPCookiePrefix+"a{b}c")) {
		t.Errorf("cookie_hash %q did not match a request with this mstshash", filter)
	}
	if foundBracesVerdict(t, &MatchRDP{CookieHash: filter}, foundBracesRequest(RDPCookiePrefix+"ac")) {
		t.Errorf("cookie_hash %q matched a request with mstshash=ac", filter)
	}
}
