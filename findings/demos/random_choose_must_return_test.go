package l4proxy

import "testing"

// random_choose must return an upstream whenever one is available.
func TestDemoRandomChooseReturnsAvailable(t *testing.T) {
	bad := &Upstream{peers: []*peer{{unhealthy: 1}}}
	good := &Upstream{peers: []*peer{{}}}
	for _, pool := range []UpstreamPool{{bad, good}, {bad, bad, good}, {bad, good, bad}} {
		for _, k := range []int{1, 2} {
			r := &RandomChoiceSelection{Choose: k}
			for i := 0; i < 200; i++ {
				if got := r.Select(pool, nil); got != good {
					t.Fatalf("pool of %d, choose=%d: Select returned %v although an available upstream exists", len(pool), k, got)
				}
			}
		}
	}
}
