package layer4

// Demonstration for finding F3 (C08/C13): listener.handle returned the pooled matching
// buffer although the connection was hijacked (handed to the wrapped listener's Accept)
// and still refers to that buffer: the next connection's prefetch overwrites bytes the
// consumer has not read yet.
// Run: cp to /repo/layer4/zz_listener_pool_test.go && go test -vet=off -run TestDemoListenerPool ./layer4

import (
	"io"
	"net"
	"sync"
	"testing"

	"go.uber.org/zap"
)

func TestDemoListenerPool(t *testing.T) {
	in, out := net.Pipe()
	go func() { _, _ = out.Write([]byte("HELLO")); _ = out.Close() }()

	l := &listener{
		logger:   zap.NewNop(),
		done:     make(chan struct{}),
		connChan: make(chan net.Conn, 1),
		wg:       new(sync.WaitGroup),
	}
	l.compiledRoute = HandlerFunc(func(cx *Connection) error {
		if err := cx.prefetch(); err != nil { // what a matching round does
			return err
		}
		return listenerHandler{}.Handle(cx)
	})
	l.wg.Add(1)
	l.handle(in)

	// another connection starts on the same P: it gets a buffer from the pool and prefetches into it
	other := bufPool.Get().([]byte)
	other = other[:cap(other)]
	for i := range other {
		other[i] = 'X'
	}

	c := <-l.connChan
	got := make([]byte, 5)
	_, _ = io.ReadFull(c, got)
	if string(got) != "HELLO" {
		t.Fatalf("hijacked connection replayed %q, want %q", got, "HELLO")
	}
}
