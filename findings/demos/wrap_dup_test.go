package layer4

// Demonstration for finding F2 (C01/C12): Wrap handed the unread buffered bytes to the
// new Connection although the wrapped net.Conn reads them through the old Connection.
// Run: cp to /repo/layer4/zz_wrap_dup_test.go && go test -vet=off -run TestDemoWrapDup ./layer4

import (
	"io"
	"net"
	"testing"

	"go.uber.org/zap"
)

type readThrough struct {
	net.Conn
	r io.Reader
}

func (c readThrough) Read(p []byte) (int, error) { return c.r.Read(p) }

func TestDemoWrapDup(t *testing.T) {
	in, out := net.Pipe()
	defer in.Close()
	go func() { _, _ = out.Write([]byte("WORLD")); _ = out.Close() }()

	cx := WrapConnection(in, []byte("HELLO"), zap.NewNop())
	w := cx.Wrap(readThrough{Conn: cx, r: cx})
	got, _ := io.ReadAll(w)
	if string(got) != "HELLOWORLD" {
		t.Fatalf("stream through wrapped connection = %q, want %q", got, "HELLOWORLD")
	}
}
