package l4proxyprotocol

import (
	"context"
	"net"
	"testing"

	"github.com/caddyserver/caddy/v2"
	"go.uber.org/zap"

	"github.com/mholt/caddy-l4/layer4"
)

type sockAddrConn struct{ net.Conn }

func (sockAddrConn) RemoteAddr() net.Addr {
	return &net.TCPAddr{IP: net.IPv4(192, 0, 2, 10), Port: 51000}
}
func (sockAddrConn) LocalAddr() net.Addr { return &net.TCPAddr{IP: net.IPv4(192, 0, 2, 1), Port: 443} }

// A v1 header "PROXY UNKNOWN" declares no addresses: the receiver
// goes on with the connection's own (PROXY protocol specification, section 2.1). The library's wrapper reports ":0".
func TestUnknownHeaderKeepsTheSocketsAddresses(t *testing.T) {
	ctx, cancel := caddy.NewContext(caddy.Context{Context: context.Background()})
	defer cancel()
	h := &Handler{}
	if err := h.Provision(ctx); err != nil {
		t.Fatal(err)
	}
	in, out := net.Pipe()
	defer func() { _, _ = in.Close(), out.Close() }()
	go func() { _, _ = out.Write([]byte("PROXY UNKNOWN\r\nhello")) }()
	cx := layer4.WrapConnection(sockAddrConn{in}, []byte{}, zap.NewNop())
	var remote, local string
	var payload [5]byte
	err := h.Handle(cx, layer4.HandlerFunc(func(c *layer4.Connection) error {
		remote, local = c.RemoteAddr().String(), c.LocalAddr().String()
		_, _ = c.Read(payload[:])
		return nil
	}))
	if err != nil {
		t.Fatal(err)
	}
	if string(payload[:]) != "hello" {
		t.Fatalf("payload behind the header: %q", payload[:])
	}
	if remote != "192.0.2.10:51000" || local != "192.0.2.1:443" {
		t.Errorf("after 'PROXY UNKNOWN' the connection handed on has the addresses %s / %s, the socket's are 192.0.2.10:51000 / 192.0.2.1:443", remote, local)
	}
}
