package layer4

import (
	"net"
	"net/netip"
	"testing"

	"go.uber.org/zap"
)

type addrConn struct {
	net.Conn
	remote, local net.Addr
}

func (c addrConn) RemoteAddr() net.Addr { return c.remote }
func (c addrConn) LocalAddr() net.Addr  { return c.local }

// A link-local peer's address carries a zone (fe80::1%eth0). It is inside fe80::/10 and ::/0.
func TestIPMatchersWithZonedAddresses(t *testing.T) {
	in, out := net.Pipe()
	defer func() { _, _ = in.Close(), out.Close() }()
	zoned := &net.TCPAddr{IP: net.ParseIP("fe80::1"), Port: 4242, Zone: "eth0"}
	cx := WrapConnection(addrConn{Conn: in, remote: zoned, local: zoned}, []byte{}, zap.NewNop())
	for _, rng := range []string{"fe80::/10", "::/0"} {
		r := &MatchRemoteIP{cidrs: []netip.Prefix{netip.MustParsePrefix(rng)}}
		if ok, err := r.Match(cx); err != nil || !ok {
			t.Errorf("remote_ip %s does not match the peer %s: %v %v", rng, zoned, ok, err)
		}
		l := &MatchLocalIP{cidrs: []netip.Prefix{netip.MustParsePrefix(rng)}}
		if ok, err := l.Match(cx); err != nil || !ok {
			t.Errorf("local_ip %s does not match the address %s: %v %v", rng, zoned, ok, err)
		}
	}
}
