package l4winbox

import "testing"

// A login with a user name of two characters is a well-formed auth message like one with one or three.
func TestWinboxUserNamesOfOneTwoThreeCharacters(t *testing.T) {
	for _, user := range []string{"a", "ab", "abc", "ab+r"} {
		msg := &MessageAuth{PublicKeyBytes: make([]byte, 32), Username: user}
		if err := (&MessageAuth{}).FromBytes(msg.ToBytes()); err != nil {
			t.Errorf("user name %q: the message a client sends is refused: %v", user, err)
		}
	}
}
