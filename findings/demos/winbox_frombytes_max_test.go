// place in: modules/l4winbox/
// MessageAuth.FromBytes checks the lower bound MessageAuthBytesMin but not the upper bound MessageAuthBytesMax the package defines (user names of at most 255 characters): a message of three chunks with a user name of 600 characters is parsed instead of rejected (clause: parsers reject inputs of the wrong length; same kind as fix ce385e8).
package l4winbox

import (
	"strings"
	"testing"
)

func TestFoundC18_WinboxFromBytesAboveMax(t *testing.T) {
	for _, n := range []int{MessageAuthUsernameBytesMax, MessageAuthUsernameBytesMax + 1, 600} {
		msg := &MessageAuth{Username: strings.Repeat("a", n), PublicKeyBytes: make([]byte, MessageAuthPublicKeyBytesTotal)}
		src := msg.ToBytes()
		err := (&MessageAuth{}).FromBytes(src)
		if len(src) <= MessageAuthBytesMax && err != nil {
			t.Errorf("user name of %d characters, message of %d bytes (max %d): rejected: %v", n, len(src), MessageAuthBytesMax, err)
		}
		if len(src) > MessageAuthBytesMax && err == nil {
			t.Errorf("user name of %d characters, message of %d bytes (max %d): accepted", n, len(src), MessageAuthBytesMax)
		}
	}
}
