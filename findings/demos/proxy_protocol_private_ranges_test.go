// place in: modules/l4proxyprotocol/
package l4proxyprotocol

import (
	"context"
	"testing"

	"github.com/caddyserver/caddy/v2"
	"github.com/caddyserver/caddy/v2/caddyconfig/caddyfile"
)

// The documented shortcut `allow private_ranges` must give a configuration that provisions (C15): the shortcut
// expands to caddyhttp.PrivateRangesCIDR(), whose last entry is the single address "::1"; before the fix
// Provision parsed every entry with net.ParseCIDR and failed with "invalid subnet '::1'".
func TestDemoProxyProtocolPrivateRangesProvisions(t *testing.T) {
	for _, input := range []string{
		"proxy_protocol {\n allow private_ranges\n}",
		"proxy_protocol {\n allow 203.0.113.0/24 private_ranges\n}",
		"proxy_protocol {\n allow 192.0.2.7 2001:db8::1\n}",
	} {
		h := &Handler{}
		if err := h.UnmarshalCaddyfile(caddyfile.NewTestDispenser(input)); err != nil {
			t.Fatalf("%q does not adapt: %v", input, err)
		}
		ctx, cancel := caddy.NewContext(caddy.Context{Context: context.Background()})
		if err := h.Provision(ctx); err != nil {
			t.Errorf("%q adapts to allow=%v but does not provision: %v", input, h.Allow, err)
		}
		cancel()
	}
}
