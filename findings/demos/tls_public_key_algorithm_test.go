package l4tls

import (
	"encoding/json"
	"testing"

	"github.com/caddyserver/caddy/v2/caddyconfig"
	"github.com/caddyserver/caddy/v2/caddyconfig/caddyfile"
)

// A tls handler written according to the documented syntax (cert_selection { public_key_algorithm rsa }) adapts to
// JSON; that JSON must load. caddytls.PublicKeyAlgorithm reads "rsa" but is written as the number 1.
func TestCertSelectionPublicKeyAlgorithmAdaptsToJSONThatLoads(t *testing.T) {
	src := "tls {\n connection_policy {\n  cert_selection {\n   public_key_algorithm rsa\n  }\n }\n}"
	h := &Handler{}
	if err := h.UnmarshalCaddyfile(caddyfile.NewTestDispenser(src)); err != nil {
		t.Fatalf("the documented syntax is rejected: %v", err)
	}
	adapted := caddyconfig.JSON(h, nil)
	var loaded Handler
	if err := json.Unmarshal(adapted, &loaded); err != nil {
		t.Fatalf("the adapted configuration %s does not load: %v", adapted, err)
	}
}
