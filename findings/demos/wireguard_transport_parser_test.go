package l4wireguard

import (
	"bytes"
	"testing"
)

// A transport message has at least MessageTransportBytesMin bytes; what is shorter is rejected, not parsed with a
// truncated tag. And parsing replaces what the object held before.
func TestTransportParserLengthsAndReuse(t *testing.T) {
	for _, n := range []int{0, 15, 16, 20, 31} {
		if err := (&MessageTransport{}).FromBytes(make([]byte, n)); err == nil {
			t.Errorf("an input of %d bytes is accepted as a transport message (at least %d)", n, MessageTransportBytesMin)
		}
	}
	first := append([]byte{4, 0, 0, 0, 1, 2, 3, 4, 9, 0, 0, 0, 0, 0, 0, 0}, bytes.Repeat([]byte{0xaa}, 20)...)
	second := append([]byte{4, 0, 0, 0, 5, 6, 7, 8, 1, 0, 0, 0, 0, 0, 0, 0}, bytes.Repeat([]byte{0xbb}, 16)...)
	msg := &MessageTransport{}
	if err := msg.FromBytes(first); err != nil {
		t.Fatal(err)
	}
	if err := msg.FromBytes(second); err != nil {
		t.Fatal(err)
	}
	if out, _ := msg.ToBytes(); !bytes.Equal(out, second) {
		t.Errorf("parsing %d bytes into a used message and serialising it gives %d bytes", len(second), len(out))
	}
}
