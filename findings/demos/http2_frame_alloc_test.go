package l4http

import (
	"context"
	"encoding/json"
	"net"
	"runtime"
	"testing"
	"time"

	"github.com/caddyserver/caddy/v2"
	"github.com/caddyserver/caddy/v2/modules/caddyhttp"
	"go.uber.org/zap"

	"github.com/mholt/caddy-l4/layer4"
)

// An HTTP/2 prior-knowledge preface followed by nine bytes - a frame header that announces a payload of 16 MiB that
// never comes - must not make the matcher allocate that payload: the matching buffer holds at most 8 KiB, so such a
// frame can never be matched. 33 bytes from a client must not cost 16 MiB of memory (per matching round).
func TestHTTP2FrameHeaderDoesNotAllocateTheAnnouncedPayload(t *testing.T) {
	data := []byte("PRI * HTTP/2.0\r\n\r\nSM\r\n\r\n")
	data = append(data, 0xff, 0xff, 0xff, 0x04, 0x00, 0x00, 0x00, 0x00, 0x00) // SETTINGS frame of 2^24-1 bytes

	ctx, cancel := caddy.NewContext(caddy.Context{Context: context.Background()})
	defer cancel()
	routes := layer4.RouteList{&layer4.Route{
		MatcherSetsRaw: caddyhttp.RawMatcherSets{caddy.ModuleMap{"http": json.RawMessage("[]")}},
		HandlersRaw:    []json.RawMessage{json.RawMessage("{\"handler\":\"test_handler\"}")},
	}}
	if err := routes.Provision(ctx); err != nil {
		t.Fatal(err)
	}
	compiled := routes.Compile(zap.NewNop(), 50*time.Millisecond, layer4.HandlerFunc(func(*layer4.Connection) error { return nil }))

	in, out := net.Pipe()
	defer func() { _, _ = in.Close(), out.Close() }()
	cx := layer4.WrapConnection(in, make([]byte, 0), zap.NewNop())
	go func() { _, _ = out.Write(data) }()

	var before, after runtime.MemStats
	runtime.GC()
	runtime.ReadMemStats(&before)
	_ = compiled.Handle(cx)
	runtime.ReadMemStats(&after)
	if allocated := after.TotalAlloc - before.TotalAlloc; allocated > 1<<20 {
		t.Fatalf("matching %d bytes from the client allocated %d bytes (matching buffer limit: %d)", len(data), allocated, layer4.MaxMatchingBytes)
	}
}
