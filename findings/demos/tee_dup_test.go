package l4tee

// Demonstration for finding F1 (C01): tee copied the Connection by value while the copy's
// net.Conn reads through the original, so prefetched bytes were delivered twice.
// Run: cp to /repo/modules/l4tee/zz_tee_dup_test.go && go test -vet=off -run TestDemoTeeDup ./modules/l4tee

import (
	"io"
	"net"
	"sync"
	"testing"

	"go.uber.org/zap"

	"github.com/mholt/caddy-l4/layer4"
)

type sink struct {
	mu  *sync.Mutex
	out *[]byte
	wg  *sync.WaitGroup
}

func (s sink) Handle(cx *layer4.Connection, _ layer4.Handler) error {
	defer s.wg.Done()
	b, _ := io.ReadAll(cx)
	s.mu.Lock()
	*s.out = b
	s.mu.Unlock()
	return nil
}

func TestDemoTeeDup(t *testing.T) {
	in, out := net.Pipe()
	defer in.Close()
	go func() { _, _ = out.Write([]byte("WORLD")); _ = out.Close() }()

	var mu sync.Mutex
	var wg sync.WaitGroup
	var branch, main []byte
	wg.Add(2)
	h := &Handler{logger: zap.NewNop()}
	h.compiledChain = layer4.Handlers{sink{&mu, &branch, &wg}}.Compile()

	// "HELLO" was prefetched during matching and is still unread
	cx := layer4.WrapConnection(in, []byte("HELLO"), zap.NewNop())
	err := h.Handle(cx, layer4.HandlerFunc(func(c *layer4.Connection) error {
		return sink{&mu, &main, &wg}.Handle(c, nil)
	}))
	if err != nil {
		t.Fatal(err)
	}
	wg.Wait()
	if string(main) != "HELLOWORLD" || string(branch) != "HELLOWORLD" {
		t.Fatalf("main=%q branch=%q, want both %q", main, branch, "HELLOWORLD")
	}
}
