package l4postgres

// Demonstration for finding F15 (C04): remote input made the postgres matcher panic
// (message shorter than its code; unterminated parameter) or allocate up to 4 GiB
// (length field smaller than 4 underflows; any 32-bit length was trusted).
// Run: cp to /repo/modules/l4postgres/zz_postgres_panic_test.go && go test -vet=off -run TestDemoPostgres ./modules/l4postgres

import (
	"net"
	"runtime"
	"testing"

	"go.uber.org/zap"

	"github.com/mholt/caddy-l4/layer4"
)

func match(t *testing.T, input []byte) (matched bool, err error, alloc uint64) {
	t.Helper()
	in, out := net.Pipe()
	defer in.Close()
	defer out.Close()
	cx := layer4.WrapConnection(in, []byte{}, zap.NewNop())
	go func() { _, _ = out.Write(input); _ = out.Close() }()
	var before, after runtime.MemStats
	runtime.ReadMemStats(&before)
	matched, err = (&MatchPostgres{}).Match(cx)
	runtime.ReadMemStats(&after)
	return matched, err, after.TotalAlloc - before.TotalAlloc
}

func TestDemoPostgresShortMessage(t *testing.T) {
	// length 6: two bytes of payload, shorter than the 4-byte code
	_, _, _ = match(t, []byte{0, 0, 0, 6, 1, 2}) // must not panic
}

func TestDemoPostgresUnterminatedParam(t *testing.T) {
	// version 3.0, key "user" without terminating NUL at the end of the message
	_, _, _ = match(t, []byte{0, 0, 0, 12, 0, 3, 0, 0, 'u', 's', 'e', 'r'}) // must not panic
}

func TestDemoPostgresHugeAlloc(t *testing.T) {
	// "GET " as a length field is 1.19 GB
	_, _, alloc := match(t, []byte("GET / HTTP/1.1\r\n\r\n"))
	if alloc > 1<<20 {
		t.Fatalf("matcher allocated %d bytes for an 18-byte input", alloc)
	}
}
