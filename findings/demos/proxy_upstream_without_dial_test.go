// place in: modules/l4proxy/
// An upstream without any dial address is accepted from JSON (the Caddyfile refuses it: "at least one dial address must be provided"); it has no peers, so it is always "available" and every policy selects it, and the client is then proxied to nothing (its connection is half-closed at once); breaks "returns an upstream that is currently available" (JSON vs Caddyfile disagreement).
package l4proxy

import (
	"context"
	"encoding/json"
	"testing"

	"github.com/caddyserver/caddy/v2"
)

func TestFound_UpstreamWithoutDialIsSelected(t *testing.T) {
	ctx, cancel := caddy.NewContext(caddy.Context{Context: context.Background()})
	defer cancel()

	h := new(Handler)
	if err := json.Unmarshal([]byte(`{"upstreams":[{"dial":["127.0.0.1:9"]},{}]}`), h); err != nil {
		t.Fatalf("unmarshal: %v", err)
	}
	err := h.Provision(ctx)
	defer func() { _ = h.Cleanup() }()
	if err != nil {
		return // refused, as the Caddyfile does
	}
	r := &RoundRobinSelection{}
	for i := 0; i < len(h.Upstreams); i++ {
		if got := r.Select(h.Upstreams, nil); got != nil && len(got.peers) == 0 {
			t.Fatalf("an upstream without any dial address was provisioned and is selected as available (dial=%v)", got.Dial)
		}
	}
}
