package layer4

// Demonstration for finding F8 (C05): the emulated UDP read deadline was stored in whole
// seconds, so a deadline less than a second ahead (or up to 1 s of any deadline) was
// truncated into the past and matching was abandoned before the timeout had elapsed.
// Run: cp to /repo/layer4/zz_udp_deadline_test.go && go test -vet=off -run TestDemoUDPDeadline ./layer4

import (
	"errors"
	"os"
	"testing"
	"time"
)

func TestDemoUDPDeadline(t *testing.T) {
	pc := &packetConn{readCh: make(chan *packet, 1), closeCh: make(chan *packetConn, 1)}
	// the outcome depended on the wall-clock phase: start in the first half of a second
	for time.Now().Nanosecond() > 500_000_000 {
		time.Sleep(10 * time.Millisecond)
	}
	start := time.Now()
	_ = pc.SetReadDeadline(start.Add(300 * time.Millisecond))
	_, err := pc.Read(make([]byte, 1))
	if !errors.Is(err, os.ErrDeadlineExceeded) {
		t.Fatalf("unexpected error %v", err)
	}
	if waited := time.Since(start); waited < 250*time.Millisecond {
		t.Fatalf("read gave up after %v although the deadline was 300ms ahead", waited)
	}
}
