package l4winbox

// Demonstration for finding F17 (C04): MessageAuth.FromBytes indexed past the input when its
// length is a multiple of 257 (a full chunk that is the last one), and FromChunks sliced
// src[i+1:len(src)-1] with i+1 > len(src)-1 when the 0x00 delimiter is the last byte.
// Both are reachable from MatchWinbox.Match with remote input.
// Run: cp to /repo/modules/l4winbox/zz_winbox_panic_test.go && go test -vet=off -run TestDemoWinbox ./modules/l4winbox

import "testing"

func TestDemoWinboxFullLastChunk(t *testing.T) {
	src := make([]byte, 257)
	src[0], src[1] = 255, MessageChunkTypeAuth
	_ = (&MessageAuth{}).FromBytes(src) // must not panic
}

func TestDemoWinboxDelimiterLast(t *testing.T) {
	src := make([]byte, 37)
	src[0], src[1] = 35, MessageChunkTypeAuth
	for i := 2; i < 36; i++ {
		src[i] = 'a'
	}
	src[36] = MessageChunkBytesDelimiter
	_ = (&MessageAuth{}).FromBytes(src) // must not panic
}
