// place in: layer4/
// listener.handle reads the byte counters of a connection (cx.bytesRead, for its "connection stats" log entry, evaluated even when debug logging is off) AFTER it has handed the connection to the wrapped listener's consumer, which is already reading from it (Connection.Read does cx.bytesRead += n): a data race on the "Connection byte counters" between the goroutine of listener.handle and the consumer; breaks "state shared between goroutines is accessed without data races" (run with -race: go test -race -vet=off -count=1 -run TestFound_ListenerStatsRace ./layer4/).
package layer4

import (
	"context"
	"io"
	"net"
	"testing"
	"time"

	"github.com/caddyserver/caddy/v2"
)

func TestFound_ListenerStatsRace(t *testing.T) {
	ctx, cancel := caddy.NewContext(caddy.Context{Context: context.Background()})
	defer cancel()

	// a listener wrapper without routes: every connection is handed to the wrapped listener
	lw := &ListenerWrapper{}
	if err := lw.Provision(ctx); err != nil {
		t.Fatal(err)
	}
	tcp, err := net.Listen("tcp", "127.0.0.1:0")
	if err != nil {
		t.Fatal(err)
	}
	ln := lw.WrapListener(tcp)
	defer func() { _ = ln.Close() }()

	const conns = 20
	go func() {
		for i := 0; i < conns; i++ {
			c, err := net.Dial("tcp", tcp.Addr().String())
			if err != nil {
				return
			}
			_, _ = c.Write([]byte("hello"))
			// keep it open until the consumer has read
			go func() {
				time.Sleep(500 * time.Millisecond)
				_ = c.Close()
			}()
		}
	}()

	// the consumer of the wrapped listener (an HTTP server in real life)
	for i := 0; i < conns; i++ {
		conn, err := ln.Accept()
		if err != nil {
			t.Fatal(err)
		}
		buf := make([]byte, 5)
		if _, err = io.ReadFull(conn, buf); err != nil {
			t.Fatal(err)
		}
		_ = conn.Close()
	}
	// the race detector makes the test fail if listener.handle has read the
	// counters while the consumer was updating them
}
