package l4rdp

import (
	"bytes"
	"testing"
)

// Parsing replaces what the object held before.
func TestRDPTokenParserReuse(t *testing.T) {
	first := append([]byte{3, 0, 0, 30, 25, 0xe0, 0, 0, 0, 0, 0}, []byte("Cookie: msts=1\r\n")...)
	second := []byte{3, 0, 0, 11, 6, 0xe0, 0, 0, 0, 0, 0}
	tok := &RDPToken{}
	if err := tok.FromBytes(first); err != nil {
		t.Fatal(err)
	}
	if err := tok.FromBytes(second); err != nil {
		t.Fatal(err)
	}
	if out, _ := tok.ToBytes(); !bytes.Equal(out, second) {
		t.Errorf("parsing %d bytes into a used token and serialising it gives %d bytes: %q", len(second), len(out), out)
	}
}
