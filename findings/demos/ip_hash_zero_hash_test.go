package l4proxy

import "testing"

// ip_hash must return the only available upstream for every client address.
func TestDemoIPHashZeroHash(t *testing.T) {
	up := &Upstream{Dial: []string{"127.0.0.1:8080"}, peers: []*peer{{}}}
	for _, ip := range []string{"42.92.191.2", "109.122.215.216", "140.118.57.78", "10.0.0.1"} {
		if got := hostByHashing([]*Upstream{up}, ip); got != up {
			t.Errorf("client %s: hostByHashing returned %v although the upstream is available (hash %d)", ip, got, hash(up.String()+ip))
		}
	}
}
