// place in: layer4/
// packetConn.Close closes its `closed` channel unconditionally: a handler that closes the connection it is given (the socks5 handler's library does - go-socks5 ServeConn defers conn.Close()) makes Server.handle's own deferred Close the second one, which panics with "close of closed channel" in the connection goroutine - one datagram to a UDP listener with such a handler ends the whole server process.
package layer4

import (
	"net"
	"testing"

	"go.uber.org/zap"
)

func TestFound_HandlerClosingItsUDPConnectionDoesNotCrashTheServer(t *testing.T) {
	s := &Server{logger: zap.NewNop()}
	// what github.com/things-go/go-socks5 (*Server).ServeConn does with the connection it is given
	s.compiledRoute = HandlerFunc(func(cx *Connection) error {
		defer func() { _ = cx.Close() }()
		return nil
	})
	sock, err := net.ListenPacket("udp", "127.0.0.1:0")
	if err != nil {
		t.Skip(err)
	}
	defer sock.Close()
	pc := &packetConn{
		PacketConn: sock,
		readCh:     make(chan *packet, 5),
		closed:     make(chan struct{}),
		closeCh:    make(chan *packetConn, 10),
		addr:       &net.UDPAddr{IP: net.IPv4(127, 0, 0, 1), Port: 4000},
	}
	defer func() {
		if r := recover(); r != nil {
			t.Fatalf("Server.handle panicked after the handler had closed the connection itself: %v (in the server this is the connection goroutine: the process ends)", r)
		}
	}()
	s.handle(pc)
	// and the loop is told once per Close that did something, not more
	if n := len(pc.closeCh); n != 1 {
		t.Fatalf("the server loop got %d close notices, expected 1", n)
	}
}
