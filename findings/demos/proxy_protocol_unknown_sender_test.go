// place in: modules/l4proxyprotocol/
// After a version 1 header "PROXY UNKNOWN" the handler publishes the library's wrapper as the connection a later proxy handler takes the client's addresses from (GetConn): that wrapper answers with the empty address, so a proxy configured with proxy_protocol v1/v2 sends "PROXY UNKNOWN" (v2: a header without addresses) to the upstream instead of the connection's own addresses - the client's effective ones, no others having been received (after a v2 LOCAL header the same path does send them).
package l4proxyprotocol

import (
	"bytes"
	"context"
	"net"
	"testing"

	"github.com/caddyserver/caddy/v2"
	"github.com/mastercactapus/proxyprotocol"
	"go.uber.org/zap"

	"github.com/mholt/caddy-l4/layer4"
)

type peerAddrConn struct{ net.Conn }

func (peerAddrConn) RemoteAddr() net.Addr {
	return &net.TCPAddr{IP: net.IPv4(192, 0, 2, 10), Port: 51000}
}
func (peerAddrConn) LocalAddr() net.Addr { return &net.TCPAddr{IP: net.IPv4(192, 0, 2, 1), Port: 443} }

func TestFound_HeaderSentAfterProxyUnknownCarriesTheConnectionsAddresses(t *testing.T) {
	ctx, cancel := caddy.NewContext(caddy.Context{Context: context.Background()})
	defer cancel()
	h := &Handler{}
	if err := h.Provision(ctx); err != nil {
		t.Fatal(err)
	}
	in, out := net.Pipe()
	defer func() { _, _ = in.Close(), out.Close() }()
	go func() { _, _ = out.Write([]byte("PROXY UNKNOWN\r\nhello")) }()
	cx := layer4.WrapConnection(peerAddrConn{in}, []byte{}, zap.NewNop())
	var sent bytes.Buffer
	err := h.Handle(cx, layer4.HandlerFunc(func(c *layer4.Connection) error {
		// what the proxy handler's dialPeers does for `proxy_protocol v1`
		var hdr proxyprotocol.HeaderV1
		hdr.FromConn(GetConn(c), false)
		_, err := hdr.WriteTo(&sent)
		return err
	}))
	if err != nil {
		t.Fatal(err)
	}
	if want := "PROXY TCP4 192.0.2.10 192.0.2.1 51000 443\r\n"; sent.String() != want {
		t.Errorf("the header a proxy would send upstream after 'PROXY UNKNOWN' is %q, the client's effective addresses are the connection's own: %q", sent.String(), want)
	}
}
