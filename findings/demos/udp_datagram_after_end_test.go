package layer4

import (
	"errors"
	"net"
	"sync"
	"testing"
	"time"

	"go.uber.org/zap"
)

// scriptedPacketConn delivers the datagrams the test feeds it.
type scriptedPacketConn struct {
	net.PacketConn
	in     chan scriptedDatagram
	closed chan struct{}
}
type scriptedDatagram struct {
	data string
	from net.Addr
}

func (s *scriptedPacketConn) ReadFrom(b []byte) (int, net.Addr, error) {
	select {
	case d := <-s.in:
		return copy(b, d.data), d.from, nil
	case <-s.closed:
		return 0, nil, errors.New("socket closed")
	}
}
func (s *scriptedPacketConn) WriteTo(b []byte, _ net.Addr) (int, error) { return len(b), nil }
func (s *scriptedPacketConn) LocalAddr() net.Addr {
	return &net.UDPAddr{IP: net.IPv4(127, 0, 0, 1), Port: 9}
}
func (s *scriptedPacketConn) SetReadDeadline(time.Time) error { return nil }

// KNOWN FINDING (C09.R23), fails on the real code (in about every second trial; 30 trials). "After a client's virtual
// connection has ended a later datagram from that client is served by a fresh one." Client A's handler reads one
// datagram and returns; A's next datagram arrives after that, while the server loop is held up by client B's full
// queue and has not processed the close notice yet. When the loop goes on it may take A's datagram before the notice:
// it finds A's old association, sees it closed, and drops the datagram.
func TestDatagramAfterTheAssociationEndedStartsAFreshOne(t *testing.T) {
	a := &net.UDPAddr{IP: net.IPv4(192, 0, 2, 1), Port: 1111}
	b := &net.UDPAddr{IP: net.IPv4(192, 0, 2, 2), Port: 2222}
	lost := 0
	const trials = 30
	for trial := 0; trial < trials; trial++ {
		pc := &scriptedPacketConn{in: make(chan scriptedDatagram), closed: make(chan struct{})}
		var mu sync.Mutex
		seen := map[string]bool{}
		aGo := make(chan struct{})
		aRead := make(chan struct{}, 4)
		bGo := make(chan struct{})
		s := &Server{logger: zap.NewNop()}
		s.compiledRoute = HandlerFunc(func(cx *Connection) error {
			buf := make([]byte, 64)
			_ = cx.SetReadDeadline(time.Now().Add(time.Minute)) // as the router does before the first read
			if cx.RemoteAddr().String() == b.String() {
				<-bGo // B's handler does not read yet: its queue fills up and the loop waits on it
				for {
					if _, err := cx.Read(buf); err != nil {
						return nil
					}
				}
			}
			n, _ := cx.Read(buf) // A's handler: one datagram, then done
			mu.Lock()
			seen[string(buf[:n])] = true
			mu.Unlock()
			aRead <- struct{}{}
			if string(buf[:n]) == "a1" {
				<-aGo // the first one ends when the test says so
			}
			return nil
		})
		done := make(chan struct{})
		go func() { _ = s.servePacket(pc); close(done) }()
		pc.in <- scriptedDatagram{"a1", a}
		<-aRead
		// hold the loop: 5 datagrams fill B's queue, the 6th is in the loop's hands
		for i := 0; i < 6; i++ {
			pc.in <- scriptedDatagram{"b", b}
		}
		time.Sleep(20 * time.Millisecond)
		// A's association ends now: its close notice waits for the loop
		close(aGo)
		time.Sleep(20 * time.Millisecond)
		// ... and A's next datagram arrives after that
		pc.in <- scriptedDatagram{"a2", a}
		time.Sleep(10 * time.Millisecond)
		close(bGo)
		deadline := time.After(500 * time.Millisecond)
	wait:
		for {
			mu.Lock()
			ok := seen["a2"]
			mu.Unlock()
			if ok {
				break
			}
			select {
			case <-deadline:
				lost++
				break wait
			case <-time.After(5 * time.Millisecond):
			}
		}
		close(pc.closed)
		<-done
	}
	if lost > 0 {
		t.Errorf("in %d of %d trials client A's datagram that arrived after its association had ended was never read by any handler", lost, trials)
	}
}
