// place in: modules/l4winbox/
package l4winbox

import (
	"bytes"
	"strings"
	"testing"
)

// A well-formed auth message whose payload (user name, delimiter, 32 key bytes, parity) is exactly 255 bytes long
// is serialised as one full chunk (257 bytes). Parsing what was serialised must reproduce the message.
// Before fix 201fcda FromBytes rejected it (it computed one chunk too many for inputs of 257, 514, ... bytes).
func TestDemoWinboxFullChunkRoundTrip(t *testing.T) {
	for _, ulen := range []int{100, 220, 221, 222, 255} {
		msg := &MessageAuth{Username: strings.Repeat("a", ulen), PublicKeyBytes: bytes.Repeat([]byte{7}, 32), PublicKeyParity: 1}
		raw := msg.ToBytes()
		back := &MessageAuth{}
		if err := back.FromBytes(raw); err != nil {
			t.Errorf("user name of %d bytes: serialised to %d bytes, parsing them fails: %v", ulen, len(raw), err)
			continue
		}
		if back.Username != msg.Username || !bytes.Equal(back.PublicKeyBytes, msg.PublicKeyBytes) || back.PublicKeyParity != msg.PublicKeyParity {
			t.Errorf("user name of %d bytes: round trip changed the message", ulen)
		}
		if again := back.ToBytes(); !bytes.Equal(again, raw) {
			t.Errorf("user name of %d bytes: parse then serialise does not reproduce the bytes", ulen)
		}
	}
}
