package l4socks

import (
	"net"
	"testing"

	"go.uber.org/zap"

	"github.com/mholt/caddy-l4/layer4"
)

// A SOCKS5 greeting offers 1 to 255 methods (RFC 1928, section 3): 05 00 is no greeting.
func TestSocks5GreetingWithoutMethods(t *testing.T) {
	for _, cfg := range [][]uint16{{0, 1, 2}, {2}} {
		in, out := net.Pipe()
		cx := layer4.WrapConnection(in, []byte{5, 0}, zap.NewNop())
		ok, err := layer4.MatcherSet{&Socks5Matcher{AuthMethods: cfg}}.Match(cx)
		_, _ = in.Close(), out.Close()
		if err != nil || ok {
			t.Errorf("auth_methods %v: the bytes 05 00 (no method offered) match: %v %v", cfg, ok, err)
		}
	}
}
