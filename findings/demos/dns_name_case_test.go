package l4dns

import (
	"context"
	"net"
	"testing"

	"github.com/caddyserver/caddy/v2"
	"github.com/miekg/dns"
	"go.uber.org/zap"

	"github.com/mholt/caddy-l4/layer4"
)

type udpAddrConn struct{ net.Conn }

func (udpAddrConn) LocalAddr() net.Addr { return &net.UDPAddr{IP: net.IPv4(127, 0, 0, 1), Port: 53} }

// Domain names compare without regard to case; the rules are documented to see them in lower case.
func TestDNSRulesSeeLowerCaseNames(t *testing.T) {
	ask := func(m *MatchDNS, name string) bool {
		q := new(dns.Msg)
		q.SetQuestion(name, dns.TypeA)
		wire, err := q.Pack()
		if err != nil {
			t.Fatal(err)
		}
		in, out := net.Pipe()
		defer func() { _, _ = in.Close(), out.Close() }()
		// the datagram has been prefetched
		cx := layer4.WrapConnection(udpAddrConn{in}, wire, zap.NewNop())
		ok, merr := layer4.MatcherSet{m}.Match(cx)
		if merr != nil {
			t.Fatalf("%s: %v", name, merr)
		}
		return ok
	}
	ctx, cancel := caddy.NewContext(caddy.Context{Context: context.Background()})
	defer cancel()
	deny := &MatchDNS{Deny: MatchDNSRules{&MatchDNSRule{Name: "example.com."}}}
	allow := &MatchDNS{Allow: MatchDNSRules{&MatchDNSRule{Name: "example.com."}}}
	for _, m := range []*MatchDNS{deny, allow} {
		if err := m.Provision(ctx); err != nil {
			t.Fatal(err)
		}
	}
	if ask(deny, "example.com.") {
		t.Fatal("a denied name matches")
	}
	if ask(deny, "ExAmPle.COM.") {
		t.Errorf("deny example.com.: the same name spelled ExAmPle.COM. is let through")
	}
	if !ask(allow, "example.com.") {
		t.Fatal("an allowed name does not match")
	}
	if !ask(allow, "EXAMPLE.com.") {
		t.Errorf("allow example.com.: the same name spelled EXAMPLE.com. is refused")
	}
}
