package layer4

// Demonstration for known finding F9 (C09): packetConn.Close closes readCh while the server loop
// (servePacket) is the sender on it. A datagram of the same client that the loop takes up after
// close(readCh) but before it has processed the close notification is sent on the closed
// channel: panic in the server loop goroutine, which terminates the whole process.
// The schedule is produced here by a burst of 8 datagrams from one client to a handler that returns
// without reading: the loop forwards 5 (queue capacity), blocks sending the 6th, and the handler's
// Close() closes the queue under it.
// Run: cp to /repo/layer4/zz_udp_closed_test.go && go test -vet=off -run TestDemoUDPSendOnClosed ./layer4

import (
	"errors"
	"net"
	"strings"
	"testing"
	"time"

	"go.uber.org/zap"
)

type scriptedPacketConn struct {
	net.PacketConn
	in chan []byte
}

var clientAddr = &net.UDPAddr{IP: net.IPv4(10, 0, 0, 1), Port: 4242}

func (s *scriptedPacketConn) ReadFrom(p []byte) (int, net.Addr, error) {
	b, ok := <-s.in
	if !ok {
		return 0, nil, errors.New("closed")
	}
	return copy(p, b), clientAddr, nil
}
func (s *scriptedPacketConn) LocalAddr() net.Addr { return &net.UDPAddr{IP: net.IPv4(10, 0, 0, 2), Port: 53} }

func TestDemoUDPSendOnClosed(t *testing.T) {
	for attempt := 0; attempt < 50; attempt++ {
		pc := &scriptedPacketConn{in: make(chan []byte, 8)}
		// a server whose route list is empty: the handler chain returns at once, handle() closes the virtual connection
		s := &Server{logger: zap.NewNop()}
		s.compiledRoute = RouteList{}.Compile(zap.NewNop(), time.Second, nopHandler{})
		crashed := make(chan string, 1)
		go func() {
			defer func() {
				if r := recover(); r != nil {
					crashed <- strings.TrimSpace(strings.SplitN(stringOf(r), "\n", 2)[0])
				}
			}()
			_ = s.servePacket(pc)
			crashed <- ""
		}()
		// a burst of datagrams from one client: the handler of the first one finishes (and closes the
		// virtual connection) while the loop is still forwarding the following ones
		for i := 0; i < 8; i++ {
			pc.in <- []byte("datagram")
		}
		time.Sleep(time.Millisecond)
		close(pc.in)
		if msg := <-crashed; msg != "" {
			t.Fatalf("attempt %d: the UDP server loop crashed: %s", attempt, msg)
		}
	}
}

func stringOf(v interface{}) string {
	if e, ok := v.(error); ok {
		return e.Error()
	}
	if s, ok := v.(string); ok {
		return s
	}
	return "panic"
}
