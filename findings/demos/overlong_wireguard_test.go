package l4wireguard

// Demonstration for finding F18 (C18): MessageInitiation.FromBytes silently truncated over-long input.
// Run: cp to /repo/modules/l4wireguard/zz_overlong_test.go && go test -vet=off -run TestDemoOverlong ./modules/l4wireguard

import "testing"

func TestDemoOverlong(t *testing.T) {
	if err := (&MessageInitiation{}).FromBytes(make([]byte, MessageInitiationBytesTotal+1)); err == nil {
		t.Errorf("MessageInitiation accepted %d bytes", MessageInitiationBytesTotal+1)
	}
}
