package l4tee

import (
	"context"
	"encoding/json"
	"io"
	"net"
	"testing"
	"time"

	"github.com/caddyserver/caddy/v2"
	"go.uber.org/zap"

	"github.com/mholt/caddy-l4/layer4"
	_ "github.com/mholt/caddy-l4/modules/l4subroute"
)

// a matcher that wants five bytes, and a handler that reads five bytes once it is told to
type demoFive struct{}

func (demoFive) CaddyModule() caddy.ModuleInfo {
	return caddy.ModuleInfo{ID: "layer4.matchers.demo_five", New: func() caddy.Module { return new(demoFive) }}
}
func (demoFive) Match(cx *layer4.Connection) (bool, error) {
	buf := make([]byte, 5)
	if _, err := io.ReadFull(cx, buf); err != nil {
		return false, err
	}
	close(demoMatched)
	return true, nil
}

type demoLate struct{}

func (demoLate) CaddyModule() caddy.ModuleInfo {
	return caddy.ModuleInfo{ID: "layer4.handlers.demo_late", New: func() caddy.Module { return new(demoLate) }}
}
func (demoLate) Handle(cx *layer4.Connection, _ layer4.Handler) error {
	<-demoGo
	buf := make([]byte, 5)
	_, err := io.ReadFull(cx, buf)
	demoGot <- string(buf)
	return err
}

var demoMatched, demoGo = make(chan struct{}), make(chan struct{})
var demoGot = make(chan string, 1)

func init() {
	caddy.RegisterModule(demoFive{})
	caddy.RegisterModule(demoLate{})
}

// The server takes the matching buffer of a connection from a pool and gives it back when the handler chain has
// returned. A tee branch that is still at work then must not be reading from that buffer: the next connection
// prefetches into it.
func TestTeeBranchDoesNotKeepTheServersPooledBuffer(t *testing.T) {
	ctx, cancel := caddy.NewContext(caddy.Context{Context: context.Background()})
	defer cancel()

	branch := json.RawMessage(`{"handler":"subroute","routes":[{"match":[{"demo_five":{}}],"handle":[{"handler":"demo_late"}]}]}`)
	h := &Handler{HandlersRaw: []json.RawMessage{branch}}
	if err := h.Provision(ctx); err != nil {
		t.Fatalf("provision: %v", err)
	}

	client, server := net.Pipe()
	defer func() { _, _ = client.Close(), server.Close() }()

	pooled := make([]byte, 0, 2048) // what Server.handle takes from bufPool (reset to length 0) ...
	cx := layer4.WrapConnection(server, pooled, zap.NewNop())

	mainChain := layer4.HandlerFunc(func(cx *layer4.Connection) error {
		// the main chain consumes the client's first message and is done (an echo, a refusal, a failed dial ...)
		buf := make([]byte, 5)
		_, err := io.ReadFull(cx, buf)
		return err
	})
	go func() { _, _ = client.Write([]byte("HELLO")) }()
	if err := h.Handle(cx, mainChain); err != nil {
		t.Fatalf("main chain: %v", err)
	}
	select {
	case <-demoMatched:
	case <-time.After(3 * time.Second):
		t.Fatal("the branch's matcher never saw the five bytes")
	}

	// ... and gives back when the chain has returned; the next connection's first prefetch reads into it
	next := pooled[:cap(pooled)]
	copy(next, "OTHER")

	close(demoGo)
	select {
	case got := <-demoGot:
		if got != "HELLO" {
			t.Fatalf("the branch's handler read %q from its connection, the client sent \"HELLO\": the branch's matching buffer is the server's pooled buffer, which another connection is using by now", got)
		}
	case <-time.After(3 * time.Second):
		t.Fatal("the branch's handler never read")
	}
}
