// place in: modules/l4tls/ together with tls_hello_across_records_test.go (whose helpers it uses)
package l4tls

import (
	"crypto/tls"
	"testing"
)

// Bytes that follow the ClientHello inside its record (the start of another handshake message) are not part of it:
// crypto/tls cuts the message at the length its header announces and reports the hello; the matcher has to see the
// same server name. Uses the helpers of tls_hello_across_records_test.go.
func TestClientHelloFollowedByMoreHandshakeBytes(t *testing.T) {
	const name = "trailing.example.com"
	rec := clientHelloRecord(t, &tls.Config{ServerName: name, NextProtos: []string{"h2"}})
	hello := rec[5:]
	body := append(append([]byte(nil), hello...), 0x0b, 0x00, 0x00) // three bytes of a further message
	stream := append([]byte{0x16, rec[1], rec[2], byte(len(body) >> 8), byte(len(body))}, body...)
	if got, seen := whatGoSees(t, stream); !seen || got != name {
		t.Fatalf("crypto/tls does not report this hello (%q %v) - the test is wrong", got, seen)
	}
	if ok, ph := whatTheMatcherSays(t, name, stream); !ok || ph != name {
		t.Errorf("crypto/tls reports server name %q, the matcher says matched=%v with l4.tls.server_name=%q", name, ok, ph)
	}
}
