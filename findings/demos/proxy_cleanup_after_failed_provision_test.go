package l4proxy

import (
	"context"
	"sync/atomic"
	"testing"

	"github.com/caddyserver/caddy/v2"
)

// caddy calls Cleanup for a module whose Provision failed. A handler that failed at its first upstream must not take
// the running configuration's peers out of the pool.
func TestCleanupAfterFailedProvisionKeepsOtherHandlersPeers(t *testing.T) {
	ctx, cancel := caddy.NewContext(caddy.Context{Context: context.Background()})
	defer cancel()
	running := &Handler{Upstreams: UpstreamPool{&Upstream{Dial: []string{"127.0.0.1:7001"}}}}
	if err := running.Provision(ctx); err != nil {
		t.Fatal(err)
	}
	defer func() { _ = running.Cleanup() }()
	mine := running.Upstreams[0].peers[0]
	_ = mine.countFail(1) // state the next configuration has to inherit

	reload := &Handler{Upstreams: UpstreamPool{&Upstream{Dial: []string{"not an address:::"}}, &Upstream{Dial: []string{"127.0.0.1:7001"}}}}
	if err := reload.Provision(ctx); err == nil {
		t.Fatal("the bad address provisions")
	}
	_ = reload.Cleanup() // what caddy does with a module whose Provision failed

	next := &Handler{Upstreams: UpstreamPool{&Upstream{Dial: []string{"127.0.0.1:7001"}}}}
	if err := next.Provision(ctx); err != nil {
		t.Fatal(err)
	}
	defer func() { _ = next.Cleanup() }()
	if got := next.Upstreams[0].peers[0]; got != mine {
		t.Errorf("after a rejected reload the next configuration gets a fresh peer for 127.0.0.1:7001 (fails=%d) instead of the running one (fails=%d): failure counts and open connections are forgotten", atomicFails(got), atomicFails(mine))
	}
}

func atomicFails(p *peer) int32 { return atomic.LoadInt32(&p.fails) }
