package l4regexp

import (
	"context"
	"testing"

	"github.com/caddyserver/caddy/v2"
)

// A counted repetition is part of the configured expression: it must survive the resolution of placeholders.
func TestPatternWithCountedRepetition(t *testing.T) {
	ctx, cancel := caddy.NewContext(caddy.Context{Context: context.Background()})
	defer cancel()
	m := &MatchRegexp{Pattern: `^\d{3}x{2,3}$`}
	if err := m.Provision(ctx); err != nil {
		t.Fatal(err)
	}
	if got := m.compiled.String(); got != `^\d{3}x{2,3}$` {
		t.Fatalf("the configured pattern %q was compiled as %q", m.Pattern, got)
	}
}
