package l4proxy

import (
	"context"
	"io"
	"net"
	"testing"
	"time"

	"github.com/caddyserver/caddy/v2"
	"go.uber.org/zap"

	"github.com/mholt/caddy-l4/layer4"
	"github.com/mholt/caddy-l4/modules/l4throttle"
)

// When the upstream finishes sending, a TCP client behind a throttle handler must observe end-of-stream
// (the proxy half-closes the downstream) although the throttle handler wrapped the connection.
func TestDemoHalfCloseReachesClientBehindThrottle(t *testing.T) {
	up, err := net.Listen("tcp", "127.0.0.1:0")
	if err != nil {
		t.Fatal(err)
	}
	defer up.Close()
	go func() {
		c, err := up.Accept()
		if err != nil {
			return
		}
		_, _ = c.Write([]byte("bye"))
		_ = c.(*net.TCPConn).CloseWrite() // the upstream has finished sending, but keeps reading
		_, _ = io.Copy(io.Discard, c)
		_ = c.Close()
	}()
	front, err := net.Listen("tcp", "127.0.0.1:0")
	if err != nil {
		t.Fatal(err)
	}
	defer front.Close()

	ctx, cancel := caddy.NewContext(caddy.Context{Context: context.Background()})
	defer cancel()
	th := &l4throttle.Handler{}
	if err := th.Provision(ctx); err != nil {
		t.Fatal(err)
	}
	ph := &Handler{Upstreams: UpstreamPool{{Dial: []string{up.Addr().String()}}}}
	if err := ph.Provision(ctx); err != nil {
		t.Fatal(err)
	}
	go func() {
		dc, err := front.Accept()
		if err != nil {
			return
		}
		defer dc.Close()
		cx := layer4.WrapConnection(dc, []byte{}, zap.NewNop())
		_ = th.Handle(cx, layer4.HandlerFunc(func(cx *layer4.Connection) error { return ph.Handle(cx, nil) }))
	}()

	client, err := net.Dial("tcp", front.Addr().String())
	if err != nil {
		t.Fatal(err)
	}
	defer client.Close()
	_ = client.SetReadDeadline(time.Now().Add(3 * time.Second))
	got, err := io.ReadAll(client)
	if err != nil {
		t.Fatalf("client read %q and then %v: it never observed end-of-stream although the upstream finished sending", got, err)
	}
	if string(got) != "bye" {
		t.Fatalf("client read %q", got)
	}
}
