package l4rdp

// Demonstration for finding F16 (C04): a carriage return as the last payload byte of an
// otherwise well-formed RDP connection request made the matcher index past the payload.
// Run: cp to /repo/modules/l4rdp/zz_rdp_panic_test.go && go test -vet=off -run TestDemoRDPTrailingCR ./modules/l4rdp

import (
	"net"
	"testing"

	"go.uber.org/zap"

	"github.com/mholt/caddy-l4/layer4"
)

func TestDemoRDPTrailingCR(t *testing.T) {
	// TPKT (3,0,len=12) + X224 CR (len=7, 0xE0, 0,0, 0,0, 0) + 1 payload byte 0x0D
	input := []byte{3, 0, 0, 12, 7, 0xE0, 0, 0, 0, 0, 0, 0x0D}
	in, out := net.Pipe()
	defer in.Close()
	defer out.Close()
	go func() { _, _ = out.Write(input); _ = out.Close() }()
	cx := layer4.WrapConnection(in, []byte{}, zap.NewNop())
	_, _ = (&MatchRDP{}).Match(cx) // must not panic
}
