package l4winbox

import (
	"context"
	"encoding/json"
	"net"
	"strings"
	"testing"
	"time"

	"github.com/caddyserver/caddy/v2"
	"github.com/caddyserver/caddy/v2/modules/caddyhttp"
	"go.uber.org/zap"

	"github.com/mholt/caddy-l4/layer4"
)

type markHandler struct{}

func (markHandler) CaddyModule() caddy.ModuleInfo {
	return caddy.ModuleInfo{ID: "layer4.handlers.winbox_mark", New: func() caddy.Module { return new(markHandler) }}
}
func (markHandler) Handle(cx *layer4.Connection, next layer4.Handler) error {
	cx.SetVar("winbox_mark", true)
	return next.Handle(cx)
}
func init() { caddy.RegisterModule(markHandler{}) }

// An auth message with a user name of 230 characters takes two chunks. Delivered whole it matches; delivered in two
// segments, the first ending inside the second chunk, it must match as well (the matcher has to ask for more data).
func TestWinboxTwoChunkMessageInTwoSegments(t *testing.T) {
	msg := &MessageAuth{PublicKeyBytes: make([]byte, 32), Username: strings.Repeat("u", 230)}
	whole := msg.ToBytes()
	if again := (&MessageAuth{}); again.FromBytes(whole) != nil || len(whole) < 265 {
		t.Fatalf("test message is not a valid two-chunk message (%d bytes)", len(whole))
	}

	run := func(segments ...[]byte) bool {
		ctx, cancel := caddy.NewContext(caddy.Context{Context: context.Background()})
		defer cancel()
		routes := layer4.RouteList{&layer4.Route{
			MatcherSetsRaw: caddyhttp.RawMatcherSets{caddy.ModuleMap{"winbox": json.RawMessage("{}")}},
			HandlersRaw:    []json.RawMessage{json.RawMessage(`{"handler":"winbox_mark"}`)},
		}}
		if err := routes.Provision(ctx); err != nil {
			t.Fatal(err)
		}
		matched := false
		compiled := routes.Compile(zap.NewNop(), 2*time.Second, layer4.HandlerFunc(func(cx *layer4.Connection) error {
			matched = cx.GetVar("winbox_mark") != nil
			return nil
		}))
		in, out := net.Pipe()
		defer func() { _, _ = in.Close(), out.Close() }()
		go func() {
			for _, s := range segments {
				_, _ = out.Write(s)
				time.Sleep(50 * time.Millisecond)
			}
		}()
		_ = compiled.Handle(layer4.WrapConnection(in, make([]byte, 0), zap.NewNop()))
		return matched
	}

	if !run(whole) {
		t.Fatalf("the message delivered whole (%d bytes) does not match", len(whole))
	}
	for _, cut := range []int{262, 257, 258, 259, 200} {
		if !run(whole[:cut], whole[cut:]) {
			t.Fatalf("the same message delivered as %d + %d bytes does not match", cut, len(whole)-cut)
		}
	}
	if !run(whole[:262], whole[262:]) {
		t.Fatalf("the same message delivered as 262 + %d bytes does not match: the matcher said no on a proper prefix instead of asking for more data", len(whole)-262)
	}
}
