package l4openvpn

import (
	"context"
	"testing"

	"github.com/caddyserver/caddy/v2"
)

// "If both are set, a joint list of client keys is created": a client key file is read also when a client key is
// given inline - a file that does not exist must fail provisioning then as it does alone.
func TestClientKeyFilesAreUsedNextToClientKeys(t *testing.T) {
	ctx, cancel := caddy.NewContext(caddy.Context{Context: context.Background()})
	defer cancel()
	alone := &MatchOpenVPN{Modes: []string{ModeCrypt2}, ClientKeyFiles: []string{"/nonexistent/client.key"}}
	if err := alone.Provision(ctx); err == nil {
		t.Fatal("a missing client key file provisions")
	}
	both := &MatchOpenVPN{Modes: []string{ModeCrypt2}, ClientKeys: []string{clientKey56Base64}, ClientKeyFiles: []string{"/nonexistent/client.key"}}
	if err := both.Provision(ctx); err == nil {
		t.Errorf("with a client key given inline the configured client key file is not even opened: %d client key(s) in use", len(both.clientKeys))
	}
}
