// KNOWN FINDING (recorded, not repaired): this test FAILS on the current tree - see known_findings.json, C11.R17.
package l4proxy

import (
	"context"
	"io"
	"net"
	"sync"
	"sync/atomic"
	"testing"
	"time"

	"github.com/caddyserver/caddy/v2"
	"go.uber.org/zap"

	"github.com/mholt/caddy-l4/layer4"
)

// max_connections 1: eight clients arriving at the same moment must not be proxied to the upstream at the same time.
func TestMaxConnectionsHoldsForSimultaneousClients(t *testing.T) {
	ctx, cancel := caddy.NewContext(caddy.Context{Context: context.Background()})
	defer cancel()

	ln, err := net.Listen("tcp", "127.0.0.1:0")
	if err != nil {
		t.Fatal(err)
	}
	defer func() { _ = ln.Close() }()
	var open, maxOpen int32
	go func() {
		for {
			c, err := ln.Accept()
			if err != nil {
				return
			}
			go func() {
				n := atomic.AddInt32(&open, 1)
				for {
					m := atomic.LoadInt32(&maxOpen)
					if n <= m || atomic.CompareAndSwapInt32(&maxOpen, m, n) {
						break
					}
				}
				time.Sleep(300 * time.Millisecond)
				atomic.AddInt32(&open, -1)
				_ = c.Close()
			}()
		}
	}()

	h := &Handler{Upstreams: UpstreamPool{&Upstream{Dial: []string{ln.Addr().String()}, MaxConnections: 1}}}
	if err = h.Provision(ctx); err != nil {
		t.Fatalf("provision: %v", err)
	}
	defer func() { _ = h.Cleanup() }()

	var wg sync.WaitGroup
	start := make(chan struct{})
	for i := 0; i < 8; i++ {
		wg.Add(1)
		go func() {
			defer wg.Done()
			client, server := net.Pipe()
			// the client reads what comes and leaves after half a second
			go func() { _, _ = io.Copy(io.Discard, client) }()
			time.AfterFunc(500*time.Millisecond, func() { _ = client.Close() })
			<-start
			_ = h.Handle(layer4.WrapConnection(server, []byte{}, zap.NewNop()), nil)
			_ = server.Close()
		}()
	}
	close(start)
	wg.Wait()
	if m := atomic.LoadInt32(&maxOpen); m > 1 {
		t.Fatalf("max_connections is 1, but %d connections to the upstream were open at the same time", m)
	}
}
