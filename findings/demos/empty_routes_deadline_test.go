package layer4

// Demonstration for finding F20 (C05/C13): with an empty route list (e.g. a listener wrapper
// without routes, or an empty subroute) the fallback handler was called while the matching
// deadline was still armed on the connection, so its reads failed after the matching timeout.
// Run: cp to /repo/layer4/zz_empty_routes_deadline_test.go && go test -vet=off -run TestDemoEmptyRoutesDeadline ./layer4

import (
	"net"
	"testing"
	"time"

	"go.uber.org/zap"
)

type deadlineRecorder struct {
	net.Conn
	last time.Time
}

func (d *deadlineRecorder) SetReadDeadline(t time.Time) error { d.last = t; return nil }

func TestDemoEmptyRoutesDeadline(t *testing.T) {
	in, out := net.Pipe()
	defer in.Close()
	defer out.Close()
	rec := &deadlineRecorder{Conn: in}
	called := false
	h := RouteList{}.Compile(zap.NewNop(), 50*time.Millisecond, HandlerFunc(func(cx *Connection) error {
		called = true
		if !rec.last.IsZero() {
			t.Errorf("fallback handler runs with the matching deadline still armed (%v)", time.Until(rec.last))
		}
		return nil
	}))
	if err := h.Handle(WrapConnection(rec, nil, zap.NewNop())); err != nil || !called {
		t.Fatalf("err=%v called=%v", err, called)
	}
}
