// place in: layer4/
// packetConn.Read refreshes the idle timer with Reset() without draining it: the module declares go 1.22 (timer channels are buffered, asynctimerchan=1), so when the timer has run out while the handler was not inside Read (a handler busy for 30s: throttle waiting for its limiter, a blocked upstream write) the stale tick survives the Reset and the next Read ends the association at once (EOF + close notification) although the client is active - with datagrams queued, select picks the stale tick half of the time and the queued datagrams are thrown away by Close: the client's datagrams do not reach its connection.
package layer4

import (
	"net"
	"testing"
	"time"
)

func TestFound_StaleIdleTickDoesNotEndAnActiveAssociation(t *testing.T) {
	for i := 0; i < 40; i++ {
		pc := &packetConn{
			readCh:  make(chan *packet, 5),
			closed:  make(chan struct{}),
			closeCh: make(chan *packetConn, 10),
			addr:    &net.UDPAddr{IP: net.IPv4(127, 0, 0, 1), Port: 4000 + i},
		}
		_ = pc.SetReadDeadline(time.Time{}) // as the routes do once a route has matched

		// The state of an association whose handler has not called Read for
		// udpAssociationIdleTimeout: its idle timer, armed by the previous Read,
		// has run out in the meantime. (Armed here with 1ms instead of 30s.)
		pc.idleTimer = time.NewTimer(time.Millisecond)
		time.Sleep(5 * time.Millisecond)

		// meanwhile the client has been sending: its datagram is queued
		buf := udpBufPool.Get().([]byte)
		copy(buf, "still here")
		pc.readCh <- &packet{pooledBuf: buf, n: len("still here"), addr: pc.addr}

		b := make([]byte, 64)
		n, err := pc.Read(b)
		if err != nil || string(b[:n]) != "still here" {
			t.Fatalf("round %d: the client's datagram is queued, but Read returned (%q, %v): a tick of the idle timer from before its refresh has ended the association", i, b[:n], err)
		}
	}
}
