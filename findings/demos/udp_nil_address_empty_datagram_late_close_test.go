package layer4

import (
	"fmt"
	"io"
	"net"
	"os"
	"path/filepath"
	"sync"
	"testing"
	"time"

	"go.uber.org/zap"
)

func udpDemoServer(h Handler) *Server {
	// as the server does: the (here empty) route list in front of the handler
	return &Server{logger: zap.NewNop(), compiledRoute: RouteList{}.Compile(zap.NewNop(), time.Second, h)}
}

// A datagram from a unixgram client that is not bound to a path has no source address: ReadFrom returns a nil
// net.Addr. The server loop must survive it (it cannot answer such a client, but it must not crash).
func TestUDPLoopSurvivesDatagramWithoutSourceAddress(t *testing.T) {
	dir, err := os.MkdirTemp("", "ugram")
	if err != nil {
		t.Fatal(err)
	}
	defer func() { _ = os.RemoveAll(dir) }()
	srvAddr := &net.UnixAddr{Name: filepath.Join(dir, "srv.sock"), Net: "unixgram"}
	pc, err := net.ListenUnixgram("unixgram", srvAddr)
	if err != nil {
		t.Fatal(err)
	}
	defer func() { _ = pc.Close() }()

	got := make(chan string, 4)
	s := udpDemoServer(HandlerFunc(func(cx *Connection) error {
		buf := make([]byte, 64)
		n, _ := cx.Read(buf)
		got <- string(buf[:n])
		return nil
	}))
	crashed := make(chan string, 1)
	go func() {
		defer func() {
			if r := recover(); r != nil {
				crashed <- fmt.Sprint(r)
			}
		}()
		_ = s.servePacket(pc)
	}()

	unbound, err := net.DialUnix("unixgram", nil, srvAddr)
	if err != nil {
		t.Fatal(err)
	}
	defer func() { _ = unbound.Close() }()
	if _, err = unbound.Write([]byte("anonymous")); err != nil {
		t.Fatal(err)
	}
	bound, err := net.DialUnix("unixgram", &net.UnixAddr{Name: filepath.Join(dir, "cli.sock"), Net: "unixgram"}, srvAddr)
	if err != nil {
		t.Fatal(err)
	}
	defer func() { _ = bound.Close() }()
	time.Sleep(100 * time.Millisecond)
	if _, err = bound.Write([]byte("named")); err != nil {
		t.Fatal(err)
	}
	for {
		select {
		case msg := <-crashed:
			t.Fatalf("the server loop crashed on a datagram without a source address: %s", msg)
		case m := <-got:
			if m == "named" {
				return // the loop is still serving
			}
		case <-time.After(3 * time.Second):
			t.Fatal("the named client was not served")
		}
	}
}

// An empty datagram is a datagram, not the end of the client's stream: the datagrams behind it still reach the
// association's handler, in order.
func TestUDPEmptyDatagramDoesNotEndTheAssociation(t *testing.T) {
	pc, err := net.ListenPacket("udp", "127.0.0.1:0")
	if err != nil {
		t.Fatal(err)
	}
	defer func() { _ = pc.Close() }()
	var mu sync.Mutex
	var seen []string
	handlers := 0
	done := make(chan struct{}, 8)
	s := udpDemoServer(HandlerFunc(func(cx *Connection) error {
		mu.Lock()
		handlers++
		mu.Unlock()
		buf := make([]byte, 64)
		for {
			n, err := cx.Read(buf)
			if n > 0 {
				mu.Lock()
				seen = append(seen, string(buf[:n]))
				mu.Unlock()
			}
			if err != nil {
				done <- struct{}{}
				if err == io.EOF {
					return nil
				}
				return err
			}
			if string(buf[:n]) == "three" {
				done <- struct{}{}
				return nil
			}
		}
	}))
	go func() { _ = s.servePacket(pc) }()

	client, err := net.Dial("udp", pc.LocalAddr().String())
	if err != nil {
		t.Fatal(err)
	}
	defer func() { _ = client.Close() }()
	for _, d := range []string{"one", "", "two", "three"} {
		if _, err = client.Write([]byte(d)); err != nil {
			t.Fatal(err)
		}
	}
	select {
	case <-done:
	case <-time.After(3 * time.Second):
	}
	time.Sleep(100 * time.Millisecond)
	mu.Lock()
	defer mu.Unlock()
	if fmt.Sprint(seen) != "[one two three]" || handlers != 1 {
		t.Fatalf("%d handler(s) ran and read %q of the datagrams \"one\", \"\", \"two\", \"three\": the empty datagram ended the association and the datagrams queued behind it were dropped (or went to another association)", handlers, seen)
	}
}

// A connection that timed out notifies the server loop twice: when its Read gives up and when it is closed. The client
// may have got a new connection in between; the second notification must not take that one out of the table, or the
// client's next datagram starts a third connection while the second is still being served.
func TestUDPLateCloseNoticeDoesNotForgetTheNewConnection(t *testing.T) {
	pc, err := net.ListenPacket("udp", "127.0.0.1:0")
	if err != nil {
		t.Fatal(err)
	}
	defer func() { _ = pc.Close() }()
	var mu sync.Mutex
	started := 0
	seen := map[int][]string{}
	firstConn := make(chan *packetConn, 1)
	s := udpDemoServer(HandlerFunc(func(cx *Connection) error {
		mu.Lock()
		started++
		me := started
		mu.Unlock()
		if me == 1 {
			firstConn <- cx.Conn.(*packetConn)
		}
		buf := make([]byte, 64)
		for {
			n, err := cx.Read(buf)
			if n > 0 {
				mu.Lock()
				seen[me] = append(seen[me], string(buf[:n]))
				mu.Unlock()
			}
			if err != nil {
				if me == 1 {
					time.Sleep(300 * time.Millisecond) // the first handler takes a while to wind down
				}
				return nil
			}
		}
	}))
	go func() { _ = s.servePacket(pc) }()

	client, err := net.Dial("udp", pc.LocalAddr().String())
	if err != nil {
		t.Fatal(err)
	}
	defer func() { _ = client.Close() }()
	send := func(d string) {
		if _, err := client.Write([]byte(d)); err != nil {
			t.Fatal(err)
		}
		time.Sleep(100 * time.Millisecond)
	}
	send("a")
	first := <-firstConn
	time.Sleep(50 * time.Millisecond)
	first.idleTimer.Reset(0) // the first connection's idle timeout expires now
	time.Sleep(100 * time.Millisecond)
	send("b")                          // served by a second connection
	time.Sleep(400 * time.Millisecond) // the first handler has returned, its connection was closed
	send("c")
	mu.Lock()
	defer mu.Unlock()
	if started != 2 || fmt.Sprint(seen[2]) != "[b c]" {
		t.Fatalf("%d connections were started for one client; the second one saw %q of the datagrams \"b\", \"c\" sent after the first had timed out (all: %v)", started, seen[2], seen)
	}
}
