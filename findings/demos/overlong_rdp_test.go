package l4rdp

// Demonstration for finding F18 (C18): the fixed-size parsers silently truncated over-long input.
// Run: cp to /repo/modules/l4rdp/zz_overlong_test.go && go test -vet=off -run TestDemoOverlong ./modules/l4rdp

import "testing"

func TestDemoOverlong(t *testing.T) {
	if err := (&TPKTHeader{}).FromBytes(make([]byte, int(TPKTHeaderBytesTotal)+1)); err == nil {
		t.Errorf("TPKTHeader accepted %d bytes", TPKTHeaderBytesTotal+1)
	}
	if err := (&X224Crq{}).FromBytes(make([]byte, int(X224CrqBytesTotal)+3)); err == nil {
		t.Errorf("X224Crq accepted %d bytes", X224CrqBytesTotal+3)
	}
	if err := (&RDPNegReq{}).FromBytes(make([]byte, int(RDPNegReqBytesTotal)+1)); err == nil {
		t.Errorf("RDPNegReq accepted %d bytes", RDPNegReqBytesTotal+1)
	}
	if err := (&RDPCorrInfo{}).FromBytes(make([]byte, int(RDPCorrInfoBytesTotal)+1)); err == nil {
		t.Errorf("RDPCorrInfo accepted %d bytes", RDPCorrInfoBytesTotal+1)
	}
}
