// place in: modules/l4http/
package l4http

import (
	"context"
	"encoding/base64"
	"encoding/json"
	"net"
	"testing"
	"time"

	"github.com/caddyserver/caddy/v2"
	"github.com/caddyserver/caddy/v2/modules/caddyhttp"
	"go.uber.org/zap"

	"github.com/mholt/caddy-l4/layer4"
)

// A request that matches when it arrives whole must match when it arrives in two segments, wherever the cut is.
// Before fix c7a6cdc a cut inside a header name or right after a CR (25 of the 93 positions of the HTTP/1.1 example,
// position 17 of the HTTP/2 prior-knowledge example) made the matcher return the parser's "malformed MIME header
// line" error instead of ErrConsumedAllPrefetchedBytes, and matching was aborted.
func demoSplit(t *testing.T, data []byte, k int) bool {
	in, out := net.Pipe()
	defer func() { _ = in.Close() }()
	defer func() { _ = out.Close() }()
	cx := layer4.WrapConnection(in, make([]byte, 0), zap.NewNop())
	go func() {
		_, _ = out.Write(data[:k])
		_, _ = out.Write(data[k:])
	}()
	ctx, cancel := caddy.NewContext(caddy.Context{Context: context.Background()})
	defer cancel()
	routes := layer4.RouteList{&layer4.Route{
		MatcherSetsRaw: caddyhttp.RawMatcherSets{caddy.ModuleMap{"http": json.RawMessage("[]")}},
		HandlersRaw:    []json.RawMessage{json.RawMessage("{\"handler\":\"test_handler\"}")},
	}}
	if err := routes.Provision(ctx); err != nil {
		t.Fatal(err)
	}
	matched := false
	compiled := routes.Compile(zap.NewNop(), 10*time.Second, layer4.HandlerFunc(func(con *layer4.Connection) error {
		matched = con.GetVar("test_handler_called") != nil
		return nil
	}))
	_ = compiled.Handle(cx)
	return matched
}

func TestDemoHTTPRequestSplitAnywhere(t *testing.T) {
	h2c, _ := base64.StdEncoding.DecodeString("UFJJICogSFRUUC8yLjANCg0KU00NCg0KAAASBAAAAAAAAAMAAABkAAQCAAAAAAIAAAAAAAAECAAAAAAAAf8AAQAALAEFAAAAAYIEjGJTnYjHZ/gxjgjjj4dBi6DkHROdCbgQNNM/eogltlDDq7wlwVMDKi8q")
	for name, data := range map[string][]byte{
		"http1": []byte("GET /foo/bar?aaa=bbb HTTP/1.1\r\nHost: localhost:10443\r\nUser-Agent: curl/7.82.0\r\nAccept: */*\r\n\r\n"),
		"h2c":   h2c,
	} {
		if !demoSplit(t, data, len(data)) {
			t.Fatalf("%s: the whole message does not match", name)
		}
		for k := 1; k < len(data); k++ {
			if !demoSplit(t, data, k) {
				t.Errorf("%s: delivered as %d + %d bytes: no match", name, k, len(data)-k)
			}
		}
	}
}
