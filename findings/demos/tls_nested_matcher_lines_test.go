package l4tls

import (
	"encoding/json"
	"testing"

	"github.com/caddyserver/caddy/v2/caddyconfig/caddyfile"
)

// Several lines of the same handshake matcher inside a tls matcher block add up (every unmarshaller loops over the
// segments it is given, and the parser collects the tokens of all lines of a matcher for it).
func TestNestedMatcherLinesAddUp(t *testing.T) {
	for _, tc := range []struct{ src, name, want string }{
		{"tls {\n alpn h2\n alpn http/1.1\n}", "alpn", `["h2","http/1.1"]`},
		{"tls {\n sni a.example.com b.example.com\n sni c.example.com\n}", "sni", `["a.example.com","b.example.com","c.example.com"]`},
		{"tls {\n remote_ip 10.0.0.0/8\n remote_ip 192.168.0.0/16\n}", "remote_ip", `{"ranges":["10.0.0.0/8","192.168.0.0/16"]}`},
	} {
		m := &MatchTLS{}
		if err := m.UnmarshalCaddyfile(caddyfile.NewTestDispenser(tc.src)); err != nil {
			t.Fatalf("%q: %v", tc.src, err)
		}
		got, _ := json.Marshal(m.MatchersRaw[tc.name])
		if string(m.MatchersRaw[tc.name]) != tc.want {
			t.Errorf("%q adapts to %s = %s, the Caddyfile says %s", tc.src, tc.name, got, tc.want)
		}
	}
}
