package l4proxy

// Demonstration for finding F12 (C11): peer.countConn was never called, so an upstream that
// had reached max_connections kept receiving connections.
// Run: cp to /repo/modules/l4proxy/zz_max_connections_test.go && go test -vet=off -run TestDemoMaxConnections ./modules/l4proxy

import (
	"context"
	"net"
	"testing"
	"time"

	"github.com/caddyserver/caddy/v2"
	"go.uber.org/zap"

	"github.com/mholt/caddy-l4/layer4"
)

func TestDemoMaxConnections(t *testing.T) {
	ln, err := net.Listen("tcp", "127.0.0.1:0")
	if err != nil {
		t.Skip(err)
	}
	defer ln.Close()
	go func() {
		for {
			c, err := ln.Accept()
			if err != nil {
				return
			}
			go func() { buf := make([]byte, 1); _, _ = c.Read(buf); _ = c.Close() }()
		}
	}()
	addr, _ := caddy.ParseNetworkAddress("tcp/" + ln.Addr().String())
	up := &Upstream{MaxConnections: 1, peers: []*peer{{address: addr}}}
	ctx, cancel := caddy.NewContext(caddy.Context{Context: context.Background()})
	defer cancel()
	h := &Handler{Upstreams: UpstreamPool{up}, LoadBalancing: &LoadBalancing{SelectionPolicy: &FirstSelection{}}, logger: zap.NewNop(), ctx: ctx}

	in, out := net.Pipe()
	done := make(chan struct{})
	go func() { _ = h.Handle(layer4.WrapConnection(in, nil, zap.NewNop()), nil); close(done) }()
	time.Sleep(200 * time.Millisecond) // first proxied connection is open now

	if up.available() {
		t.Errorf("upstream with max_connections=1 is still available while one proxied connection is open")
	}
	_ = out.Close()
	<-done
	if !up.available() {
		t.Errorf("upstream not available again after its only connection ended (numConns=%d)", up.peers[0].getNumConns())
	}
}
