package l4proxy

// Demonstration for finding F10 (C04/C10): random_choose passes a slice with nil slots to
// leastConns, which dereferenced them (nil pointer panic in the connection goroutine), and
// leastConns returned nil when every candidate had at least one connection.
// Run: cp to /repo/modules/l4proxy/zz_random_choose_nil_test.go && go test -vet=off -run TestDemoRandomChoose ./modules/l4proxy

import "testing"

func TestDemoRandomChooseNilSlot(t *testing.T) {
	down := &peer{unhealthy: 1}
	pool := UpstreamPool{{peers: []*peer{down}}, {peers: []*peer{down}}}
	sel := &RandomChoiceSelection{Choose: 2}
	if got := sel.Select(pool, nil); got != nil { // must not panic
		t.Fatalf("selected unavailable upstream")
	}
}

func TestDemoLeastConnsBusy(t *testing.T) {
	busy := &Upstream{peers: []*peer{{numConns: 3}}}
	if got := leastConns([]*Upstream{busy}); got != busy {
		t.Fatalf("leastConns returned %v although an upstream was offered", got)
	}
}
