// place in: modules/l4http/
// isHttp answers 'need more data' whenever the first LF is found before offset 10 - but a line that has ENDED that early ("QUIT\n", "EHLO x\r\n", "\n") can never become a request line, however many bytes follow; the verdict on this complete first message is (false, ErrConsumedAllPrefetchedBytes) instead of a plain 'no match', and the route list then waits for more data instead of trying the next route, until the matching timeout drops the connection - breaks 'a message violating a mandatory field does not match' (the verdict must be a definite no).
package l4http

import (
	"context"
	"encoding/json"
	"errors"
	"net"
	"testing"

	"github.com/caddyserver/caddy/v2"
	"go.uber.org/zap"

	"github.com/mholt/caddy-l4/layer4"
)

func TestFound_HTTPShortFirstLineIsADefiniteNo(t *testing.T) {
	for _, data := range []string{"QUIT\n", "EHLO x\r\n", "+OK\r\nmore bytes of a protocol that is not HTTP\r\n"} {
		needMore, matched := MatchHTTP{}.isHttp([]byte(data))
		if matched {
			t.Fatalf("%q looks like HTTP", data)
		}
		if needMore {
			t.Errorf("%q: isHttp asks for more data although the first line has ended after fewer than 10 bytes", data)
		}
	}

	// the same through Match on a connection in matching mode
	m := &MatchHTTP{MatcherSetsRaw: nil}
	_ = json.Unmarshal([]byte("[{}]"), m)
	ctx, cancel := caddy.NewContext(caddy.Context{Context: context.Background()})
	defer cancel()
	if err := m.Provision(ctx); err != nil {
		t.Fatalf("Provision: %v", err)
	}
	in, out := net.Pipe()
	defer func() { _ = in.Close(); _ = out.Close() }()
	cx := layer4.WrapConnection(in, []byte("QUIT\r\n"), zap.NewNop())
	matched, err := layer4.MatcherSet{m}.Match(cx)
	if matched {
		t.Fatalf("QUIT matched")
	}
	if errors.Is(err, layer4.ErrConsumedAllPrefetchedBytes) {
		t.Errorf("Match asks for more data after the complete line %q", "QUIT\r\n")
	}
}
