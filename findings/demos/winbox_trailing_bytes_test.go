// place in: modules/l4winbox/
package l4winbox

import (
	"bytes"
	"strings"
	"testing"
)

// Whatever FromBytes accepts must come back from ToBytes byte for byte (C18): a parser that accepts bytes behind the
// last chunk drops them. Before the fix a well-formed message followed by 1..20 more bytes was accepted and
// serialised back without them, for single-chunk and for multi-chunk messages.
func TestDemoWinboxBytesBehindTheLastChunk(t *testing.T) {
	for _, ulen := range []int{5, 100, 230, 300} {
		msg := &MessageAuth{Username: strings.Repeat("a", ulen), PublicKeyBytes: bytes.Repeat([]byte{7}, 32), PublicKeyParity: 1}
		raw := msg.ToBytes()
		for _, extra := range []int{1, 2, 5, 20} {
			in := append(append([]byte{}, raw...), bytes.Repeat([]byte{0x55}, extra)...)
			back := &MessageAuth{}
			if err := back.FromBytes(in); err != nil {
				continue // rejected: fine
			}
			if out := back.ToBytes(); !bytes.Equal(out, in) {
				t.Errorf("user name of %d bytes: %d bytes (message of %d + %d more) are accepted, serialising gives %d bytes back: the parser truncates instead of rejecting", ulen, len(in), len(raw), extra, len(out))
			}
		}
	}
}
