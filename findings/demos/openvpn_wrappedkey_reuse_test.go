// place in: modules/l4openvpn/
// WrappedKey.FromBytesCrypt leaves MetaData.Type and MetaData.Payload of an earlier parse in place when the new plain text has no metadata, so a WrappedKey object that is used a second time serialises (ToBytesCrypt/ToBytesAuth) to the new key followed by the old metadata and a genuine key fails to authenticate (clause: parsing then serialising reproduces the bytes; same kind as fix b389624).
package l4openvpn

import (
	"bytes"
	"testing"
)

func foundReuseWrap(serverKey *StaticKey, kc, metadata []byte) []byte {
	plain := append(append([]byte(nil), kc...), metadata...)
	total := CryptHMACBytesTotal + len(plain) + LengthBytesTotal
	auth := BytesOrder.AppendUint16(nil, uint16(total))
	auth = append(auth, plain...)
	tag := AuthDigestDefault.HMACGenerateOnServer(serverKey, auth)
	enc := CryptCipherDefault.EncryptOnServer(serverKey, tag[:CryptCipherDefault.SizeBlock], plain)
	wkc := append(append([]byte(nil), tag...), enc...)
	return BytesOrder.AppendUint16(wkc, uint16(total))
}

func TestFoundC18_WrappedKeyParsedIntoUsedObject(t *testing.T) {
	serverKey := &StaticKey{KeyBytes: make([]byte, StaticKeyBytesHalf)}
	for i := range serverKey.KeyBytes {
		serverKey.KeyBytes[i] = byte(i*5 + 1)
	}
	kc := make([]byte, StaticKeyBytesTotal)
	for i := range kc {
		kc[i] = byte(i*3 + 7)
	}
	withMeta := foundReuseWrap(serverKey, kc, []byte{0x01, 1, 2, 3, 4, 5, 6, 7, 8})
	noMeta := foundReuseWrap(serverKey, kc, nil)

	// a fresh object takes either of them
	for i, wkc := range [][]byte{withMeta, noMeta} {
		wk := &WrappedKey{}
		if err := wk.FromBytes(wkc); err != nil {
			t.Fatalf("fresh %d: FromBytes: %v", i, err)
		}
		if !wk.DecryptAndAuthenticate(nil, serverKey) {
			t.Fatalf("fresh %d: does not authenticate", i)
		}
	}

	// one object, used for the first and then for the second
	wk := &WrappedKey{}
	if err := wk.FromBytes(withMeta); err != nil {
		t.Fatal(err)
	}
	if !wk.DecryptAndAuthenticate(nil, serverKey) {
		t.Fatal("first use does not authenticate")
	}
	if err := wk.FromBytes(noMeta); err != nil {
		t.Fatal(err)
	}
	ok := wk.DecryptAndAuthenticate(nil, serverKey)
	if got := wk.ToBytesCrypt(); !bytes.Equal(got, kc) {
		t.Errorf("second use: plain text of %d bytes parsed, ToBytesCrypt gives %d bytes (old metadata kept)", len(kc), len(got))
	}
	if !ok {
		t.Errorf("second use: a genuine wrapped key without metadata does not authenticate in a used object")
	}
}
