package l4tls

import (
	"context"
	"crypto/tls"
	"encoding/json"
	"io"
	"net"
	"testing"
	"time"

	"github.com/caddyserver/caddy/v2"
	"github.com/caddyserver/caddy/v2/modules/caddyhttp"
	"go.uber.org/zap"

	"github.com/mholt/caddy-l4/layer4"
)

type sniMark struct{}

func (sniMark) CaddyModule() caddy.ModuleInfo {
	return caddy.ModuleInfo{ID: "layer4.handlers.sni_mark", New: func() caddy.Module { return new(sniMark) }}
}
func (sniMark) Handle(cx *layer4.Connection, next layer4.Handler) error {
	cx.SetVar("sni_mark", true)
	return next.Handle(cx)
}
func init() { caddy.RegisterModule(sniMark{}) }

// clientHelloRecord returns the first flight of a crypto/tls client: one handshake record holding the ClientHello.
func clientHelloRecord(t *testing.T, cfg *tls.Config) []byte {
	c, s := net.Pipe()
	go func() { _ = tls.Client(c, cfg).Handshake() }()
	hdr := make([]byte, 5)
	if _, err := io.ReadFull(s, hdr); err != nil {
		t.Fatal(err)
	}
	body := make([]byte, int(hdr[3])<<8|int(hdr[4]))
	if _, err := io.ReadFull(s, body); err != nil {
		t.Fatal(err)
	}
	_, _ = c.Close(), s.Close()
	return append(hdr, body...)
}

// whatGoSees feeds the bytes to a crypto/tls server and returns the server name it reports.
func whatGoSees(t *testing.T, stream []byte) (name string, seen bool) {
	c, s := net.Pipe()
	go func() { _, _ = c.Write(stream); time.Sleep(100 * time.Millisecond); _ = c.Close() }()
	srv := tls.Server(s, &tls.Config{GetConfigForClient: func(chi *tls.ClientHelloInfo) (*tls.Config, error) {
		name, seen = chi.ServerName, true
		return nil, io.EOF
	}})
	_ = srv.Handshake()
	_ = s.Close()
	return
}

// whatTheMatcherSays routes the bytes through `tls sni <name>`.
func whatTheMatcherSays(t *testing.T, name string, stream []byte) (matched bool, placeholder string) {
	ctx, cancel := caddy.NewContext(caddy.Context{Context: context.Background()})
	defer cancel()
	routes := layer4.RouteList{&layer4.Route{
		MatcherSetsRaw: caddyhttp.RawMatcherSets{caddy.ModuleMap{"tls": json.RawMessage(`{"sni":["` + name + `"]}`)}},
		HandlersRaw:    []json.RawMessage{json.RawMessage(`{"handler":"sni_mark"}`)},
	}}
	if err := routes.Provision(ctx); err != nil {
		t.Fatal(err)
	}
	compiled := routes.Compile(zap.NewNop(), 500*time.Millisecond, layer4.HandlerFunc(func(cx *layer4.Connection) error {
		matched = cx.GetVar("sni_mark") != nil
		repl := cx.Context.Value(layer4.ReplacerCtxKey).(*caddy.Replacer)
		placeholder, _ = repl.GetString("l4.tls.server_name")
		return nil
	}))
	in, out := net.Pipe()
	defer func() { _, _ = in.Close(), out.Close() }()
	go func() { _, _ = out.Write(stream) }()
	_ = compiled.Handle(layer4.WrapConnection(in, make([]byte, 0), zap.NewNop()))
	return
}

// A handshake message may be split over several records (RFC 8446, section 5.1); Go's TLS server - the one that
// terminates the connection after routing - puts the pieces together. The matcher has to see the same hello.
func TestClientHelloAcrossRecords(t *testing.T) {
	const name = "fragmented.example.com"
	rec := clientHelloRecord(t, &tls.Config{ServerName: name, NextProtos: []string{"h2", "http/1.1"}})
	hello := rec[5:]

	split := func(at int) []byte {
		var out []byte
		for _, piece := range [][]byte{hello[:at], hello[at:]} {
			out = append(out, 0x16, rec[1], rec[2], byte(len(piece)>>8), byte(len(piece)))
			out = append(out, piece...)
		}
		return out
	}

	if got, seen := whatGoSees(t, rec); !seen || got != name {
		t.Fatalf("crypto/tls does not see the hello in one record: %q %v", got, seen)
	}
	if ok, ph := whatTheMatcherSays(t, name, rec); !ok || ph != name {
		t.Fatalf("the matcher does not match the hello in one record: %v %q", ok, ph)
	}
	for _, at := range []int{1, 3, 4, 6, 50, len(hello) / 2, len(hello) - 1} {
		stream := split(at)
		got, seen := whatGoSees(t, stream)
		if !seen || got != name {
			t.Fatalf("split at %d: crypto/tls does not accept this hello (%q %v) - the test is wrong", at, got, seen)
		}
		if ok, ph := whatTheMatcherSays(t, name, stream); !ok || ph != name {
			t.Errorf("hello of %d bytes split over two records at %d: crypto/tls reports server name %q, the matcher says matched=%v with l4.tls.server_name=%q",
				len(hello), at, got, ok, ph)
		}
	}
}
