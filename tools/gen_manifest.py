#!/usr/bin/env python3
"""Regenerates /verif/MANIFEST.json from the table below (run after adding/removing a check)."""
import json, os
here = os.path.dirname(os.path.dirname(os.path.abspath(__file__)))
props = [json.loads(l) for l in open(os.path.join(here, 'properties.jsonl'))]

TRUST = ("Trusted: go/types and x/tools go/packages+go/ssa model the program; the contracts of the standard library "
         "and of the third-party libraries (proxyprotocol, go-socks5, miekg/dns, quic-go, caddy core) hold. Only the structural "
         "clauses listed in the check's evidence ('rules') are decided; the behavioural statement itself (all inputs/schedules) is not.")

# id -> (technique, text, design_ref)
CLAIMS = {
 "C01": ("typestate + provenance dataflow over go/ssa, finite-predicate path evaluation of Read/prefetch/Wrap",
         "Structural necessary conditions of match-and-rewind decided for every path of the code: freeze/unfreeze bracket every matcher "
         "(typestate), cursor save/restore, the Read/prefetch/Wrap scenario tables over all orderings of (matching, len(buf), offset), "
         "no by-value Connection copies, router adoption of wrapped connections, handlers pass on a connection that reads through theirs. "
         "Breaking any of them loses, duplicates or reorders bytes on some input/segmentation; stream equality for all inputs is not decided.",
         "DESIGN.md section 4 C01"),
 "C02": ("finite-predicate path evaluation of the matcher combinators; bounded abstract interpretation of the compiled route handler's SSA with callee summaries; dominance rules",
         "The AND/OR/NOT/empty truth tables of the combinators are decided exhaustively for up to 2 inner matchers; the compiled route handler is "
         "interpreted abstractly for 0..3 routes over every outcome of matchers, prefetch rounds and handlers, and every path must satisfy the routing "
         "invariants (handlers only right after their route matched the current stream, in order, no repetition, no matched route passed over, nothing after a terminal "
         "route, fallback exactly once, last, on the handed-on connection, only when all remaining routes are decided 'no' on the current stream); fallback wiring of "
         "subroute/server/listener wrapper. Verdicts of real matchers and longer route lists are not decided.",
         "DESIGN.md section 4 C02"),
 "C05": ("provenance dataflow + bounded abstract interpretation of the route handler (deadline typestate on every path) + finite-predicate path evaluation of prefetch",
         "Decided for every path of the code: the matching deadline is computed once from time.Now()+timeout outside all loops; on every explored path of the compiled "
         "route handler (0..3 routes, all outcomes of matchers/prefetch/handlers) it is armed at each prefetch and cleared at each handler chain and at the fallback; "
         "failed matching runs nothing further and the connection's Close is deferred first; prefetch reads at most one chunk and only below the limit regardless of the cursor; "
         "the emulated UDP deadline keeps sub-second resolution. Wall-clock bounds themselves are not decided.",
         "DESIGN.md section 4 C05"),
 "C06": ("error-propagation dataflow over go/ssa on the matcher-reachable call graph, who-may-read rule, typestate, path evaluation of Read in matching mode",
         "Decided for all matcher-reachable code (about 180 functions from 20 ConnMatcher implementations): only Connection.Read/prefetch read the raw conn; Read never reaches the socket "
         "while matching; every call that reads from the connection or a reader built on it has its error tested and every return reachable from the error edge returns an error deriving "
         "from it (need-more is never turned into a definite 'no'; three reviewed trailing-probe exceptions); the MatchingBytes view is read-only and used only where reviewed; matchers do not "
         "modify the connection and publish memoised state only after their last read; the freeze/unfreeze bracket. Verdict monotonicity per protocol is value-level and not decided.",
         "DESIGN.md section 4 C06"),
 "C08": ("effect summaries (which parameters a function writes through) over the module call graph, atomic-consistency census, pool-lifetime alias analysis, goroutine join rule",
         "Decided for all per-connection code (everything reachable from Match/Handle/Select/handle): fields accessed with sync/atomic are accessed only so; no plain store or map update reaches the shared "
         "module instance or a package-level variable, directly or through a callee; package-level variables used per connection are value-like or reviewed as concurrency-safe; a pooled buffer is never retained "
         "past its Put and is recycled under exactly the guard under which its connection is closed; handler goroutines with access to the connection are joined (tee reviewed); Connection.Write stores nothing plainly. "
         "General race freedom is not decided.",
         "DESIGN.md section 4 C08"),
 "C09": ("channel-ownership analysis (close vs. senders), key-derivation provenance, who-may-read census, send-kind check over go/ssa",
         "Decided: no channel is closed while another function sends on it unjoined (the defect repaired in /repo); the association table is keyed, filled and cleaned with one derivation of the client address; "
         "replies go to the address fixed at association creation; one ReadFrom site in one reader goroutine per socket, one blocking forward per datagram, one serve loop per listener; close notifications are never dropped. "
         "Queued datagram records and their pooled buffers are per-iteration storage and never sub-slices; packetConn.Read releases a pooled buffer iff the datagram is exhausted; Close releases before it notifies; Close and Read reach a blocking notification. Interleavings with idle expiry and back-pressure are not decided.",
         "DESIGN.md section 4 C09"),
 "C13": ("path evaluation of pipeConnection/Accept, guard-equality and dominance rules for the shutdown protocol, bounded abstract interpretation of the route handler",
         "Decided: hand-off is the wrapper's fallback; pipeConnection sends exactly once and reports errHijacked on every path; Close and buffer recycling happen under the same 'not hijacked' guard; the WaitGroup/close/drain "
         "shutdown protocol (Add before go, deferred Done, close after Wait in its own goroutine, drain not behind Wait, pending connections closed, Accept reports net.ErrClosed); the delivered value reads through the layer4 "
         "connection; nothing is handed off after a terminal route on any explored path. Blocking while the consumer is slow is by design and not decided.",
         "DESIGN.md section 4 C13"),
 "C03": ("finite-predicate path evaluation of proxy()/Handle/dialPeers with goroutine and deferred bodies evaluated in place",
         "Decided over every outcome of dialing, header writing, half-close support and retry: the tee chain, one copy-back per upstream and the pump over the complete upstream set; CloseWrite/Close on every upstream after the client "
         "finished and CloseWrite on the client after the upstreams finished; the WaitGroup/channel join before return and that the pump's signal cannot block ahead of the half-close; cleanup closes every dialed connection, "
         "dialPeers leaks none on any failure path; prefetched bytes are handed on exactly once (Wrap/Read tables). Every connection wrapper a handler installs in front of the client socket passes the half-close on (offers CloseWrite, is unwrapped by the proxy, or exposes NetConn; the tee branch is a reviewed exception). Byte-exactness for all payloads and timings is not decided.",
         "DESIGN.md section 4 C03"),
 "C10": ("finite-predicate path evaluation of every selection policy over pools of 0..3 upstreams and all availability/count/random outcomes; truth table of available()",
         "Decided exhaustively within the bound: a policy only returns an upstream that available() accepted on that path, never dereferences an empty slot, returns nil when none is available and (first, random, least_conn) some "
         "upstream when one is; first picks the earliest, least_conn a minimal one; available = healthy and not full with every peer consulted; round_robin advances its counter per probe; ip_hash hashes only upstream and client. "
         "Pool states (availability and, for least_conn, connection counts of every upstream) are fixed per evaluation; round_robin is evaluated for every starting counter residue and must return an upstream when one is available. The connection limit default of an upstream is the copy of unhealthy_connection_count and nothing else. Distributions and the stability of ip_hash under membership changes are not claimed.",
         "DESIGN.md section 4 C10"),
 "C11": ("pairing/path rules over go/ssa, who-may-write census of the counters, path evaluation of the retry loop and of healthy/full/available",
         "Decided: every remembered failure (+1) starts a goroutine that cannot end without the -1 on the same peer after waiting; counters are written only by their atomic add/CAS in countFail/countConn/setHealthy; "
         "the retry loop re-selects only after tryAgain()==true and gives up with the last error; on success each peer is counted +1, and -1 in the deferred cleanup together with closing every connection; active-check polarity; "
         "the availability predicates consult every peer. tryAgain gives up iff time.Since(start) >= try_duration and otherwise waits try_interval or cancellation; no option defaulted after the upstreams are provisioned is read while provisioning them; every policy honours available(). countFailure remembers every failed dial while a fail duration is configured, whatever the counters say; the active check dials the address with the health port substituted at the moment the dial string is built. The timing of the failure window is not decided.",
         "DESIGN.md section 4 C11"),
 "C12": ("finite-predicate path evaluation of the proxy_protocol handler, allow list, tidyRules and dialPeers; constant/dominance rules for the version table",
         "Decided over every outcome: untrusted peers pass through untouched, parse errors stop the chain, accepted headers publish the parsed conn under the key GetConn reads and hand on Wrap(conn); Wrap hands no unread bytes on; "
         "each upstream gets exactly one header of the provisioned version built from GetConn(down) before relaying; the version comes from the placeholder-resolved option; allow-list semantics incl. non-IP peers; tidyRules loses no rule. "
         "An IP peer is refused only after every rule was asked; matchers keep no copy of the peer address on the connection and test the live, unmapped RemoteAddr. Header bytes themselves are the third-party library's.",
         "DESIGN.md section 4 C12"),
 "C17": ("finite-predicate path evaluation of throttledConn.Read and Handle over limiter presence, burst orderings and wait outcomes",
         "Decided for all orderings of len(p) and the bursts: batch = min(len(p), bursts), every present limiter is asked for exactly the batch before the single underlying read of exactly p[:batch], a failed wait reads nothing, "
         "results pass through; Handle wraps the previous cx.Conn with the handler-wide limiter always and a fresh local limiter iff configured, honours latency and cancellation. Rate and burst of every limiter are exactly the configured options of its scope and default bursts derive from the rate of the same scope. The numeric bound itself relies on x/time/rate.",
         "DESIGN.md section 4 C17"),
 "C16": ("finite-predicate path evaluation of Socks5Handler.Provision over command lists and credential maps; who-may-call census",
         "Decided for command lists of 0..2 entries resolving to CONNECT/ASSOCIATE/BIND/empty/unknown and credential maps of 0 or 2 entries: the PermitCommand rule enables exactly the configured commands (default CONNECT+ASSOCIATE), "
         "any other resolved value fails provisioning, NoAuth is offered iff no credentials are configured and otherwise only user/password over the resolved map, both options reach NewServer; the package itself never dials or listens and Handle "
         "only delegates to ServeConn. Command lists with repeated entries are part of the table; every account name is the resolved name stored under a non-empty test. The credential store is the library's StaticCredentials or a module type whose Valid is evaluated on an account table and must accept exactly the configured pairs. Enforcement inside go-socks5 is trusted.",
         "DESIGN.md section 4 C16"),
 "C18": ("byte-layout abstract interpretation of parser and serialiser (fields tracked as byte ranges of a symbolic input of concrete length), exhaustive evaluation of the header byte codec, struct size computation",
         "Decided for 12 wire types of OpenVPN, WireGuard and RDP and every length at/around their size bounds: parse-then-serialise reproduces the input byte for byte on every accepting path, lengths outside the bounds are rejected on every path "
         "(exact size for fixed-size types), no fixed-width decoding reads past its slice, the OpenVPN header byte round-trips for all 256 values, declared size constants equal encoded struct sizes. The Winbox auth parser's field ranges tile the reassembled buffer (proved end-to-start) and the chunk arithmetic of its parser and serialiser equals the chunk format on reference sequences for payloads of 35..766 bytes. "
         "Serialise-then-parse of arbitrary field values is not decided.",
         "DESIGN.md section 4 C18"),
 "C07": ("AST extraction of cryptobyte read sequences from the repo's parser and from the toolchain's crypto/tls source (oracle parsed on every run); SSA dominance/provenance rules for the record gate, length and placeholders",
         "Decided: the hello is read only behind the record-type-22 gate with exactly the announced length; the fixed part and all 18 extension cases shared with crypto/tls perform the same ordered reads with the same case constants; "
         "each extension feeding ClientHelloInfo fills the field crypto/tls fills; placeholders and handshake sub-matchers use the parsed hello; both reads propagate need-more and the matcher does not consult the amount of buffered data. "
         "The cipher-suite loop and every shared extension case have the same ordered effects (reads, tests, constants, appends, continue/return) as crypto/tls; no path to a matched verdict avoids the parse or a placeholder; the supported-versions fallback is applied on every way out of the parser. Record gate and exact-length read are decided by evaluating Match on fixed records. Value-level agreement over all hellos (the differential statement) is not decided.",
         "DESIGN.md section 4 C07"),
 "C14": ("field-access census over the matcher call graph, constant table comparison against an independent specification table, provenance lint for netip addresses, path evaluation of the DNS decision",
         "Decided: every configured filter field of the 20 matchers is consulted; pre-parsed filters are assigned during provisioning; 41 wire constants/byte strings/byte gates equal the specification table; addresses tested against CIDR "
         "filters are in canonical form; the DNS allow/deny/default_deny/prefer_allow decision equals the documented table for every rule-hit combination. Verdict tables (path evaluation on first messages with fixed bytes, boundary and near-miss cases) for ssh, proxy_protocol, xmpp, socks4, socks5 and wireguard equal reference predicates; the RDP header predicates equal references written from MS-RDPBCGR/RFC 1006 over value tables; the clock matcher converts per connection; plain and regexp sibling filters test the same expression; OpenVPN TCP bounds are the datagram bounds plus the opcode byte. Decoded HTTP/2 header fields accumulate (Add, never Set with a data key). The matchers' verdict functions over all messages are not decided.",
         "DESIGN.md section 4 C14"),
 "C15": ("AST extraction of documented grammar vs. accepted option labels, struct tag census, codec field agreement, map-range determinism lint, registration census, nil-guard dominance rule for option handlers",
         "Decided: for 21 Caddyfile unmarshallers the documented option keywords equal the accepted labels; custom JSON codecs use one field in both directions; 30+ configuration structs are tagged name,omitempty; no slice is built in "
         "map iteration order; every module type is registered and imported; option handlers never replace a configuration sub-object another option may have filled; merged global blocks get fresh server keys. Appends assign the field they extend; keyword shortcuts are compared after prefix stripping; duplicate-option flags are tested and set consistently; optional trailing arguments set their field only when present. Durations are parsed with caddy.ParseDuration only; pointers appended per block point to per-block objects. Semantic equality of the adapted JSON "
         "for all generated Caddyfiles is not decided.",
         "DESIGN.md section 4 C15"),
 "C04": ("bounds prover over go/ssa (difference constraints from type widths, definitions, library contracts, loop induction, dominating branches, value numbering) with a reviewed table for the residue; bounded path evaluation of the postgres parser; key/type agreement census; reachability of explicit panics",
         "Decided for all ~250 per-connection functions: each of ~360 index/slice/make/division sites is proven in range (about 92%) or listed with a reason in specs/audited_bounds.json (16 sites, each a stated blind spot); remote-controlled "
         "allocations are bounded by 65 KiB; unchecked type assertions on context/variable-table values agree with all producers of their key; no explicit panic is reachable; selection policies never dereference an empty slot; the postgres "
         "parser is evaluated for every declared length 0..16 and the limits with symbolic content without any out-of-range access. The prover works across helper boundaries (parameter facts from all call sites, case split over the callee's returns); sites that the scenario tables of other rules evaluate with concrete lengths are discharged by those evaluations; every other unchecked type assertion is justified (boxed type, keyed producers, pool producers, or path evaluation of the http2 frame loop); the audited table (16 sites) is keyed by function and indexed object. Third-party parsers and general nil dereferences are not decided.",
         "DESIGN.md section 4 C04"),
}

# clauses added with the rules of round 6 (see DESIGN.md section 8, RULES.md for the inventory)
ADD6 = {
 "C01": " Also decided: a new connection's matching buffer is proven empty where it is handed to WrapConnection; the tee's next-handler connection, evaluated over the outcomes of its underlying read (data, data with EOF, EOF, error), has written to the branch whatever it returns and closes the pipe exactly at EOF.",
 "C03": " A full Close of an upstream inside proxy() (nested closures included) is accepted only for an upstream that cannot half-close and only after the client->upstream pump has finished.",
 "C04": " Also decided: pointers prepared while provisioning and dereferenced per connection without a nil test (compiled regexps, loggers, servers: 15 fields) are assigned a value that cannot be nil on every error-free path of a storing function (helper results included); matchers only ever run frozen (the C01 typestate), so none reads from the socket without bound.",
 "C08": " The rest of a partially read datagram is never a view of a buffer already returned to the pool (path evaluation of packetConn.Read).",
 "C12": " Routes after the handler are decided on the connection it handed on (routing invariants of the explored route handler: verdicts taken before a handler replaced the connection are asked again).",
 "C13": " Every matcher of a set is bracketed by its own freeze/unfreeze (typestate), so the hand-off starts at the first unconsumed byte.",
 "C14": " Verdict tables (concrete first messages evaluated through Match, with the reference verdict written from the protocol definition) now cover ssh, xmpp, postgres, socks4, socks5, proxy_protocol, regexp, wireguard, winbox, rdp and openvpn (plain/auth/crypt/crypt2 gates, TCP and UDP); the OpenVPN replay window is evaluated for timestamps around both edges (accepted iff less than 15 s from now, either side); one DNS rule is evaluated on 15 filter combinations x 5 questions against the conjunction of its plain and regexp filters.",
 "C15": " Every call site of a Caddyfile helper taking the dispenser hands it over in the same cursor position; 25 UnmarshalCaddyfile methods are evaluated, with a model of caddyfile.Dispenser, on 230 concrete token sequences (documented forms, wrong counts, duplicates, exclusive and unknown options, nested blocks) and must leave exactly the fields the documented syntax denotes or reject the input.",
 "C16": " Provision is evaluated on concrete credential tables with placeholders in names and passwords: the authenticator's map holds resolved name -> resolved password of the same entry and no account for a name that resolves to nothing.",
 "C18": " No size guard compares a length narrowed to 8 or 16 bits unless the length is proven to fit (an input of size + k*2^16 bytes would pass and be parsed from its first bytes).",
}

# clauses added with the rules of round 7
ADD7 = {
 "C01": " Every queued UDP datagram is a record and buffer of its own (a burst is delivered datagram by datagram).",
 "C03": " The shared peer table is keyed by the configured dial address itself (two backends that differ only in the network never collapse into one peer); halfCloser, evaluated on chains of concrete connection types (tls over tcp, layer4.Connection over tls, NetConn() wrappers, udp), returns the first connection of the chain that offers CloseWrite.",
 "C05": " Every matcher of a set runs between its own freeze and unfreeze (the buffer bound holds only for frozen matchers).",
 "C06": " The http matcher's request-line test, evaluated on prefixes and complete lines, never says no before the first line is complete; a connection variable that matcher code sets is read back by matcher code only in the reviewed http case (no verdict from memory).",
 "C07": " The alpn sub-matcher, evaluated on configured x offered protocol lists, matches exactly when an id is equal byte for byte (as crypto/tls compares them).",
 "C10": " Every counted failure is forgotten again on every path of the forgetting goroutine.",
 "C11": " The peer table key derives from the configured dial address; a Caddyfile option never replaces a health-check object an earlier option filled in.",
 "C12": " While the header is awaited no read deadline is set on the connection itself, and with a timeout the deadline handed to NewConn is now + timeout.",
 "C13": " A subroute in the wrapper's routes is compiled per connection with the handler's own next.",
 "C14": " The clock matcher end to end: Provision evaluated on 12 configurations leaves the documented window (before 00:00:00 or empty = 24:00:00, reversed pairs swapped, malformed points fail) and Match in that state matches exactly inside it; the verdict tables run in the state the matcher's own Provision leaves.",
 "C15": " After an accepted Caddyfile case the module's Provision is evaluated on the state the unmarshaller left and must not fail; nested Caddyfiles (servers, listener wrapper, subroute, tee, not, proxy lb_policy, tls policies) are evaluated through a model of the module registry.",
 "C17": " The connection stays throttled after Handle returns (deferred closures evaluated); a datagram read in batch-sized pieces is delivered completely.",
 "C18": " Winbox chunk sequences followed by further bytes are rejected (nothing behind the last chunk).",
}

ADD8 = {
 "C01": " Handlers.Compile, evaluated on chains of 0..3 handlers, runs them in the configured order and ends in the given next (the tee branch's chain); the pooled buffer of a handed-off connection is not recycled.",
 "C02": " A new connection's matching buffer is proven empty (routes are decided on the bytes received so far, not on what a recycled slice still holds); compiled handler chains keep the configured order.",
 "C03": " The relay's shutdown loop is evaluated with TCP, UDP, unix stream and unix datagram upstreams (a stream that offers CloseWrite is half-closed - also a *net.UnixConn, which is a packet connection too -, a datagram socket is closed); the connection a tee hands to its concurrently running branch is wrapped in a type that offers neither CloseWrite nor NetConn().",
 "C04": " Methods used only as bound method values (parse-after-decrypt callbacks) are part of the per-connection code, with the length bounds that hold where the method value is made; encoding/binary's fixed-width accessors are index obligations; a pointer stored in a field straight from a fallible call is published with its error; lazily created pointer fields are dereferenced only behind a nil test or a fresh assignment on every path (contradiction rule).",
 "C05": " At the buffer limit the http matcher still answers need-more (the router, not a matcher's 'no', ends matching that exhausts the buffer).",
 "C06": " What prefetch appends is a copy of what it read and no view of a pooled buffer is retained; below the limit prefetch performs exactly one read whatever the fill.",
 "C07": " The record gate accepts every record-layer version (as crypto/tls does for the first record); the ClientHello parser is evaluated on 15 concrete hellos with a model of cryptobyte.String.",
 "C08": " No append in per-connection code appends to a slice taken from the shared module instance (append writes into the spare capacity all connections share).",
 "C09": " The association's lazily created timers are dereferenced only behind a nil test or a fresh assignment on every path; setting the deadline of a virtual connection never blocks and arms the timer that wakes a waiting Read.",
 "C10": " Every failed dial is remembered for fail_duration, also for a peer that is already out of rotation.",
 "C11": " tryAgain is given a reading of the clock taken before the first selection (each time.Now() is a value of its own); every path through the active probe dials the peer and reaches a setHealthy call.",
 "C14": " Two provisioned objects that the matcher configures differently (the OpenVPN auth and crypt keys) are separate objects.",
 "C15": " After Provision the module's Validate (where it has one) is evaluated as well; the private_ranges shortcut of the proxy_protocol handler is expanded from the dependency's source and must provision.",
 "C16": " Credentials kept in files: placeholders are resolved by the global replacer, not one made WithoutFile().",
 "C17": " A datagram waits for a slow (throttled) reader: the server loop hands it to the association's queue with a send that is not abandoned when the queue is full.",
}

ADD9 = {
 "C01": " The tee handler never closes the branch's pipe itself (next may be the router's continuation, which returns while later routes still read through the tee).",
 "C02": " On every path of the route loop the matching deadline is removed before the fallback runs, also after an earlier non-terminal match.",
 "C03": " A new connection's matching buffer is proven empty on the server and the listener-wrapper path alike (the relay starts with the client's own bytes).",
 "C04": " Foreign parsers that allocate what the peer announces (frozen table: http2.Framer.ReadFrame) have their limit set to a constant of at most 64 KiB + 1 KiB before every read; the request the http matcher keeps for later matchers is the prepared one.",
 "C06": " Verdict tables hold proper prefixes of a two-chunk Winbox message (need-more, not 'no').",
 "C07": " The tls matcher sets its placeholders from the parsed hello before the first handshake sub-matcher is asked.",
 "C08": " Wrap gives the new connection no storage of the receiver's (pooled) buffer, evaluated over the receiver's buffer states; a map taken from a sync.Pool is cleared before it is read.",
 "C09": " No handler closes the connection it was given (a second Close of a UDP association's virtual connection ends the process).",
 "C10": " A failed dial is remembered on the peer that was dialed, not on its siblings (dialPeers over all outcomes).",
 "C11": " Every failed dial - plain or TLS, dial or header write - is counted on the peer (dialPeers over all outcomes); Upstream.peers is assigned only while provisioning.",
 "C12": " Provision of the proxy_protocol handler, evaluated on concrete allow lists with placeholders resolved from a fixed environment, makes exactly one rule per entry and fails for an entry that resolves to nothing or to no address.",
 "C13": " The tls handler appends the state of a new termination at the end of tls_connection_states (the listener wrapper exposes the last element).",
 "C15": " The tls matcher's Caddyfile (nested handshake matchers, repeated lines add up) and the tls handler's certificate selection (repeated serial_number lines add up) are in the tables; a placeholder allow entry of the proxy_protocol handler provisions.",
}

ADD10 = {
 "C01": " Every case of the UDP loop's hand-over select queues the datagram in hand, returns its buffer, or leaves the loop with an error (no datagram disappears from its client's stream).",
 "C02": " Once a handler has built a reading wrapper on the connection and read through it, every call of next passes a connection that reads through that wrapper.",
 "C03": " The same wrapper rule for the proxy_protocol handler (bytes the wrapper buffered beyond the header are relayed).",
 "C04": " The hello handed to the tls sub-matchers carries the connection on every path.",
 "C06": " On every proper prefix of every message of the verdict tables (cut at the first and last bytes and around every multiple of 255) a matcher asks for more or says no - never yes where the whole says no, never no where the whole says yes; the frozen flag is written by freeze and unfreeze only.",
 "C07": " A ClientHello spread over two or three handshake records is handed to the parser whole (as crypto/tls reassembles it); a missing or incomplete later record answers need-more, a record of another type in between answers no. The rules follow the 4-byte message header to whichever side of the Match/parser interface takes it off.",
 "C08": " What PrepareRequest and similar calls write into (a replacer) is created in the call that uses it, not once per matcher; a sync.Pool is shared state like any other package-level variable.",
 "C09": " The address result of ReadFrom is tested for nil before a method is called on it; an empty datagram does not end the association (bytes.Reader's EOF on zero bytes modelled); every delete from the association table is guarded by a comparison of the entry with the connection that sent the notice; the hand-over select loses no datagram; what goes back into the datagram pool is what came out of it, at full length.",
 "C10": " Provisioning uses a peer found in the table as found and builds a new one from the dial address only; all operations on the peer table spell the key the same way.",
 "C11": " KNOWN FINDING (C11.R17, recorded in known_findings.json, not repaired): the connection count is raised after the dial, so max_connections is not enforced for connections arriving at the same moment; the check prints it as KNOWN-FINDING and reports any other violation as before.",
 "C12": " Every rule's mask length, address length and ones agree (a one-address range is /32 on a 4-byte or /128 on a 16-byte address); ip_hash keys on the address the PROXY header put in place.",
 "C13": " The buffer given to a new connection by the listener wrapper is proven empty; the tee handler leaves its pipe to the reading side.",
 "C14": " The regexp, dns, rdp and winbox patterns keep their counted repetitions (caddy's replacer modelled as implemented: ReplaceAll removes unknown braces, ReplaceKnown keeps them); postgres SSLRequest codes with a declared length other than 8 are in the tables.",
 "C15": " alpn lines inside a tls matcher block add up (also through the tls matcher's own parser).",
 "C17": " What each limiter is asked for is summed over all WaitN calls of a read, for reads of 1024, 2048 and 4096 bytes.",
}

ADD11 = {
 "C01": " A UDP client's datagrams are handed to its queue by the loop itself in arrival order (one blocking send, not goroutines racing for the queue).",
 "C02": " Leaving matching mode puts the cursor back where matching began; one prefetch is one read.",
 "C03": " Every matcher of a set is rewound before the next one freezes the cursor; the throttle's read discipline in front of the relay.",
 "C05": " Every blocking wait for a datagram in the UDP association's Read also watches the deadline timer and the closed channel.",
 "C06": " On all 49 proper prefixes of a ClientHello spread over two records the tls matcher answers need-more and parses nothing.",
 "C07": " The hello parser is given the message and nothing else (cut at the announced length); alpn ids given as placeholders are compared as resolved.",
 "C08": " What a byte-slice pool's New returns is allocated in that call or capacity-limited; the association table belongs to one socket's loop.",
 "C09": " The closed channel is closed in Close only and nothing in the package calls Close on an association; the loop releases a datagram itself only where it has no source address; every wait for a datagram watches deadline and close. KNOWN FINDING (C09.R23, recorded, not repaired): a datagram arriving after its association has ended, before the loop has processed the notice, is dropped instead of starting a fresh association.",
 "C10": " round_robin's position is a field of the policy instance; the failure counter moves by +1/-1 only.",
 "C11": " The active checker's start depends on no other presence test than health_checks and active; Cleanup, evaluated on handlers provisioned 2+1, 2+0, 1+0 and 0+0 addresses far, releases exactly the table entries provisioning stored.",
 "C12": " Every placeholder WrapConnection derives from the connection's addresses is set again from the new connection before it is handed on; all allow lines of a Caddyfile block add up; prefetch keeps its bytes in storage of its own. After a v1 header that declares no addresses (PROXY UNKNOWN) the connection handed on reads through the library's wrapper and answers with the addresses of the connection below (Handle evaluated with three kinds of header).",
 "C13": " A handler that hands on a new connection builds it on the connection it was given; nothing a matcher does writes into the matching buffer.",
 "C14": " In a matcher's Provision the loop over one configured list is not guarded by the emptiness of another (both lists given: both apply); a SOCKS5 greeting offers at least one method. The address tested against the ranges has had its IPv6 zone removed; the dns rules are given the question name lower-cased and are consulted only about questions whose class and type lookups both succeeded; winbox user names of one, two and three characters.",
 "C15": " A field's map written by a parser is made or found non-nil on every path to the write. KNOWN FINDING (C15.R20, recorded, not repaired): the documented `cert_selection { public_key_algorithm rsa }` adapts to JSON that does not load (caddytls.PublicKeyAlgorithm reads names, is written as a number).",
 "C16": " Accounts are evaluated with the replacer as caddy implements it: braces that are no placeholder stay part of the name or password.",
 "C17": " Every value stored into the handler-wide limiter is rate.NewLimiter on the handler's own total rate and total burst.",
 "C18": " Every type's length bounds are the package's own constants (a transport message has at least MessageTransportBytesMin bytes); a parser never assigns a slice field append(<that field as it was on entry>, ...). The openvpn verdict tables also under this property (a parser rejects a wrong length whatever state the message object is in).",
}

ADD12 = {
 "C01": " Prefetch keeps the bytes of a read that also returned an error before it reports the error.",
 "C02": " A verdict remembered between calls is looked at only beside the bytes it was computed from; a handler that hands on a new connection builds it on the one it was given (also under this property).",
 "C03": " Each queued datagram has storage of its own until it has been read (also under this property).",
 "C04": " The addresses a PROXY header is built from are tested for their kind before they are converted.",
 "C05": " The HTTP/2 framer's limit is a constant (also under this property).",
 "C06": " The HTTP/2 framer's limit is a constant; an HTTP first line shorter than a method, a target and a version is no request.",
 "C07": " A hello spread over twenty records; the alpn matcher's Caddyfile tables also under this property.",
 "C08": " Provision stores into the fields of a peer only where it has just allocated it (a pooled peer another configuration uses stays as it is); after a connection is handed to the handler's goroutine the listener loop touches it no more.",
 "C09": " The idle timer's channel is drained when Stop reports it had fired; every path of Read that tells the loop the association is over returns io.EOF.",
 "C10": " Every upstream has at least one dial address, so every upstream selected has a peer.",
 "C11": " The probe of a peer is started under no condition on the peer's own state; the selection policies' index rules also under this property.",
 "C13": " After handing a connection to its handler the accept loop does not use it; a handler that passes on the connection it was given passes on what it buffered from it.",
 "C15": " The dial address parsed at provisioning is the replacer's result.",
 "C16": " The socks5 handler's Caddyfile tables also under this property (credentials come in pairs).",
 "C18": " A parser assigns every field on every accepting path; every maximum constant of a layout is compared.",
}

ADD13 = {
 "C03": " Leaving matching mode puts the cursor back where matching began (also under this property).",
 "C04": " Closing a UDP association twice - a handler or a library given the connection may close it before the server does - closes its channel once.",
 "C08": " Every wrapped listener has a hand-off queue of its own; no module constructor hands out package-level storage.",
 "C09": " A second Close of an association does nothing.",
 "C10": " The pool is in the order the Caddyfile gives; every peer of every upstream is probed, taken from the upstream's own list.",
 "C11": " On every failing path of provisioning the upstream holds as many peers as table references were taken; the peers probed come from the upstream's own list.",
 "C12": " After a v1 header without addresses the connection published for a later proxy handler is the one handed on, so the header that proxy sends carries the connection's own addresses.",
 "C13": " The matching buffer goes back to the pool once; prefetch does not call itself; a context stored into the connection is not cancelled after the hand-off.",
 "C14": " The openvpn static key's accessors, evaluated for every key direction, return the quarter openvpn's key-direction table says; an rdp custom_info filter longer than the longest cookie hash.",
 "C15": " A single optional module is loaded only where its raw field is set.",
 "C16": " The module constructor hands out a fresh handler that shares no list with other instances.",
 "C17": " The context a throttled connection waits on is not cancelled by the function that handed the connection on.",
 "C18": " The longest winbox auth message is the format's figure (293 bytes), and the package constant agrees with it.",
}

ADD14 = {
 "C10": " random_choose is tabled over busy upstreams too (its least-loaded helper returns one whenever one is in the sample).",
 "C14": " A prefix the module builds from a single address takes its length from the address's BitLen(); the dns matcher's Caddyfile tables also under this property.",
 "C15": " Caddyfile parsers read numbers with base 10.",
 "C17": " The proxy's pump reads the client through the connection it was given, never from the connection below the wrappers.",
}

ADD15 = {
 "C03": " halfCloser is also evaluated on every concrete type a handler passes to Connection.Wrap (over a TCP socket the half-close reaches the socket; the tee branch's wrapper, by name, reaches nothing).",
 "C04": " The bound on make applies to the capacity (make([]T, 0, n) allocates n); sums of lengths of existing objects count as existing.",
 "C08": " No atomic Store/Swap of a value derived from an atomic Load of the same variable (lost update): read-modify-write only through Add/CompareAndSwap.",
}

checks = []
for p in props:
    if p["id"] not in CLAIMS:
        continue
    tech, text, ref = CLAIMS[p["id"]]
    text = text + ADD6.get(p["id"], "") + ADD7.get(p["id"], "") + ADD8.get(p["id"], "") + ADD9.get(p["id"], "") + ADD10.get(p["id"], "") + ADD11.get(p["id"], "") + ADD12.get(p["id"], "") + ADD13.get(p["id"], "") + ADD14.get(p["id"], "") + ADD15.get(p["id"], "")
    checks.append({
        "property_id": p["id"],
        "quick_cmd": "./run.sh %s quick" % p["id"],
        "thorough_cmd": "./run.sh %s thorough" % p["id"],
        "evidence_file": "/verif/evidence/%s.json" % p["id"],
        "replay_cmd_template": "cat {path}",
        "engine": "l4verify",
        "level_claimed": {"category": "other", "text": text, "design_ref": ref},
        "level_note": TRUST,
        "technique": "static analysis: " + tech,
    })

NA = {}
na = [{"property_id": p["id"], "reason": NA.get(p["id"], "check not built yet (planned static rules: DESIGN.md section 4)")}
      for p in props if p["id"] not in CLAIMS]

m = {
 "version": 1,
 "setup_cmd": "./setup.sh",
 "hooks": {"guard": "verif", "enable": "none needed: static analysis reads /repo's source as it is (no hooks, no instrumentation, nothing of /repo is executed)",
           "baseline_off_cmd": "cd /repo && GOFLAGS=-mod=mod go test -vet=off -count=1 ./...", "source_commits": [], "add_only": True},
 "engines": [{"name": "l4verify", "path": "/verif/checker", "serves_properties": sorted(CLAIMS),
              "kind_free_text": "repository-specific static analyser (go/packages, go/types, go/ssa): typestate, provenance dataflow, finite-predicate path evaluator, effect summaries, AST extractors, compiler bounds-check report"}],
 "checks": checks,
 "notes": "All checks are static: they load and type-check /repo's current working tree on every run and never execute it. Known findings: /verif/known_findings.json. Seeded changes used to validate the checker: /verif/seeded and /verif/selftest.",
 "not_applicable": na,
}
json.dump(m, open(os.path.join(here, 'MANIFEST.json'), 'w'), indent=1)
print("claimed:", sorted(CLAIMS), "not claimed:", [x["property_id"] for x in na])
