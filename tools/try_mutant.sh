#!/bin/bash
# usage: try_mutant.sh <patch.diff>   -> prints, per property, the failed obligations the patch adds (overlay; /repo untouched)
cd /verif && ./bin/l4verify -prop all -patch "$1" 2>&1 | grep -v ": 0 failed" | cut -c1-${2:-230}
