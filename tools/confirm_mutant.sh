#!/bin/bash
# usage: confirm_mutant.sh <src dir with patch.diff demo_test.go meta.json> <dest id, e.g. C01-A>
# Confirms in a scratch worktree of /repo (outside /repo and /verif) that the change compiles, passes the whole
# existing suite, that its demonstration fails with it and passes without it; then stores it under /verif/seeded/<id>/.
set -u
export GOFLAGS=-mod=mod GOPROXY=off GOSUMDB=off GOTOOLCHAIN=local; unset GOWORK
src="$1"; id="$2"
wt=$(mktemp -d /tmp/confirm-XXXXXX)
git -C /repo worktree add -q --detach "$wt" HEAD || exit 2
cleanup() { git -C /repo worktree remove --force "$wt" 2>/dev/null; rm -rf "$wt"; }
trap cleanup EXIT
place=$(head -3 "$src/demo_test.go" | grep -o 'place in: *[^ ]*' | sed 's/place in: *//' | head -1)
[ -z "$place" ] && { echo "no 'place in:' line"; exit 2; }
place=${place%/}
res() { echo "$1"; }
cd "$wt"
cp "$src/demo_test.go" "$place/zz_seeded_demo_test.go"
clean_demo=$(go test -vet=off -count=1 "./$place/" 2>&1 | tail -1)
case "$clean_demo" in ok*) cd_ok=1;; *) cd_ok=0;; esac
rm "$place/zz_seeded_demo_test.go"
git apply "$src/patch.diff" || { echo "patch does not apply"; exit 3; }
build=$(go build ./... 2>&1 | tail -3); [ -z "$build" ] && b_ok=1 || b_ok=0
suite=$(go test -vet=off -count=1 ./... 2>&1 | grep -v '^ok\|no test files' | head -5); [ -z "$suite" ] && s_ok=1 || s_ok=0
cp "$src/demo_test.go" "$place/zz_seeded_demo_test.go"
fails=0
for i in 1 2 3; do
  out=$(go test -vet=off -count=1 "./$place/" 2>&1 | tail -1)
  case "$out" in ok*) ;; *) fails=$((fails+1));; esac
done
echo "id=$id clean_demo_pass=$cd_ok build_ok=$b_ok suite_pass=$s_ok demo_fails_with_patch=$fails/3"
if [ $cd_ok = 1 ] && [ $b_ok = 1 ] && [ $s_ok = 1 ] && [ $fails -ge 2 ]; then
  d=/verif/seeded/$id; mkdir -p "$d"
  cp "$src/patch.diff" "$d/patch.diff"; cp "$src/demo_test.go" "$d/demo_test.go"
  python3 - "$src/meta.json" "$d/meta.json" "$place" "$(git -C /repo rev-parse --short HEAD)" <<'PY'
import json,sys
m=json.load(open(sys.argv[1]))
m["origin"]="independent sub-agent given only the property text and a scratch worktree"
m["confirmed"]={"base_commit":sys.argv[4],"ran":["clean worktree: demo passes","git apply patch.diff; go build ./... ok","go test -vet=off -count=1 ./... passes with the patch (demo absent)","demo placed in "+sys.argv[3]+"/ fails with the patch (>=2 of 3 runs)"]}
json.dump(m,open(sys.argv[2],"w"),indent=1)
PY
  echo "stored $d"
else
  echo "NOT CONFIRMED: $suite $build"
fi
