module mutgen
go 1.23
