// mutgen: development aid (not part of any registered check). Generates single-site syntactic mutants of the
// functions named on the command line (file:func pairs) as unified diffs, one per directory under -out.
package main

import (
	"bytes"
	"flag"
	"fmt"
	"go/ast"
	"go/parser"
	"go/printer"
	"go/token"
	"os"
	"os/exec"
	"path/filepath"
	"strings"
)

type site struct {
	desc  string
	apply func()
	undo  func()
}

func main() {
	repo := flag.String("repo", "/repo", "")
	out := flag.String("out", "/tmp/mg/mutants", "")
	flag.Parse()
	n := 0
	for _, arg := range flag.Args() {
		parts := strings.SplitN(arg, ":", 2)
		file := parts[0]
		funcs := map[string]bool{}
		if len(parts) == 2 {
			for _, f := range strings.Split(parts[1], ",") {
				funcs[f] = true
			}
		}
		path := filepath.Join(*repo, file)
		src, err := os.ReadFile(path)
		if err != nil {
			fmt.Fprintln(os.Stderr, err)
			continue
		}
		fset := token.NewFileSet()
		f, err := parser.ParseFile(fset, path, src, parser.ParseComments)
		if err != nil {
			fmt.Fprintln(os.Stderr, err)
			continue
		}
		for _, d := range f.Decls {
			fd, ok := d.(*ast.FuncDecl)
			if !ok || fd.Body == nil || (len(funcs) > 0 && !funcs[fd.Name.Name]) {
				continue
			}
			for _, s := range sitesOf(fd) {
				s.apply()
				var buf bytes.Buffer
				_ = (&printer.Config{Mode: printer.UseSpaces | printer.TabIndent, Tabwidth: 8}).Fprint(&buf, fset, f)
				s.undo()
				dir := filepath.Join(*out, fmt.Sprintf("m%04d", n))
				_ = os.MkdirAll(dir, 0o755)
				tmp := filepath.Join(dir, "new.go")
				_ = os.WriteFile(tmp, buf.Bytes(), 0o644)
				// diff against a printer-normalised original so that only the mutation shows
				var ob bytes.Buffer
				_ = (&printer.Config{Mode: printer.UseSpaces | printer.TabIndent, Tabwidth: 8}).Fprint(&ob, fset, f)
				orig := filepath.Join(dir, "orig.go")
				_ = os.WriteFile(orig, ob.Bytes(), 0o644)
				cmd := exec.Command("diff", "-u", "--label", "a/"+file, "--label", "b/"+file, orig, tmp)
				diff, _ := cmd.Output()
				if len(diff) == 0 {
					os.RemoveAll(dir)
					continue
				}
				_ = os.WriteFile(filepath.Join(dir, "patch.diff"), diff, 0o644)
				_ = os.WriteFile(filepath.Join(dir, "desc.txt"), []byte(file+" "+fd.Name.Name+": "+s.desc+"\n"), 0o644)
				_ = os.WriteFile(filepath.Join(dir, "file.txt"), []byte(file+"\n"), 0o644)
				os.Remove(tmp)
				os.Remove(orig)
				n++
			}
		}
	}
	fmt.Println(n, "mutants")
}

func sitesOf(fd *ast.FuncDecl) []site {
	var out []site
	flip := map[token.Token]token.Token{token.LSS: token.LEQ, token.LEQ: token.LSS, token.GTR: token.GEQ, token.GEQ: token.GTR, token.EQL: token.NEQ, token.NEQ: token.EQL, token.LAND: token.LOR, token.LOR: token.LAND}
	ast.Inspect(fd.Body, func(n ast.Node) bool {
		switch x := n.(type) {
		case *ast.BinaryExpr:
			if nw, ok := flip[x.Op]; ok {
				old := x.Op
				out = append(out, site{fmt.Sprintf("%s -> %s at line-ish %d", old, nw, x.OpPos), func() { x.Op = nw }, func() { x.Op = old }})
			}
			if x.Op == token.ADD || x.Op == token.SUB {
				old := x.Op
				nw := token.SUB
				if old == token.SUB {
					nw = token.ADD
				}
				out = append(out, site{fmt.Sprintf("%s -> %s", old, nw), func() { x.Op = nw }, func() { x.Op = old }})
			}
		case *ast.BasicLit:
			if x.Kind == token.INT && len(x.Value) < 6 {
				old := x.Value
				var v int
				if _, err := fmt.Sscan(old, &v); err == nil {
					out = append(out, site{fmt.Sprintf("literal %s -> %d", old, v+1), func() { x.Value = fmt.Sprint(v + 1) }, func() { x.Value = old }})
					if v > 0 {
						out = append(out, site{fmt.Sprintf("literal %s -> %d", old, v-1), func() { x.Value = fmt.Sprint(v - 1) }, func() { x.Value = old }})
					}
				}
			}
		case *ast.IfStmt:
			old := x.Cond
			out = append(out, site{"negate if condition", func() { x.Cond = &ast.UnaryExpr{Op: token.NOT, X: &ast.ParenExpr{X: old}} }, func() { x.Cond = old }})
		case *ast.BlockStmt:
			for i, st := range x.List {
				i, st := i, st
				switch s := st.(type) {
				case *ast.ExprStmt:
					if _, isCall := s.X.(*ast.CallExpr); isCall {
						out = append(out, site{"delete call statement", func() { x.List[i] = &ast.EmptyStmt{Implicit: true} }, func() { x.List[i] = st }})
					}
				case *ast.AssignStmt:
					if s.Tok == token.ASSIGN || s.Tok == token.ADD_ASSIGN {
						out = append(out, site{"delete assignment", func() { x.List[i] = &ast.EmptyStmt{Implicit: true} }, func() { x.List[i] = st }})
					}
				case *ast.DeferStmt:
					out = append(out, site{"delete defer", func() { x.List[i] = &ast.EmptyStmt{Implicit: true} }, func() { x.List[i] = st }})
				case *ast.IncDecStmt:
					out = append(out, site{"delete inc/dec", func() { x.List[i] = &ast.EmptyStmt{Implicit: true} }, func() { x.List[i] = st }})
				case *ast.BranchStmt:
					if s.Tok == token.CONTINUE || s.Tok == token.BREAK {
						old := s.Tok
						nw := token.BREAK
						if old == token.BREAK {
							nw = token.CONTINUE
						}
						if s.Label == nil {
							out = append(out, site{fmt.Sprintf("%s -> %s", old, nw), func() { s.Tok = nw }, func() { s.Tok = old }})
						}
					}
				}
			}
		}
		return true
	})
	return out
}
