#!/usr/bin/env python3
"""Regenerates /verif/selftest/seeded.json: which seeded change (under /verif/seeded) must make which rule fire."""
import json, os
here = os.path.dirname(os.path.dirname(os.path.abspath(__file__)))
# (seeded dir, property, substring expected in a failed obligation key, why)
T = [
 ("C01-A", "C01", "C01.R1", "unfreeze deferred once: second freeze overwrites the saved cursor"),
 ("C06-A", "C01", "C01.R1", "freeze hoisted around the whole set: second matcher starts where the first stopped"),
 ("fixrev-d03f68a", "C01", "C01.R5", "tee copies the Connection by value"),
 ("C03-B", "C01", "C01.R5", "Wrap hands the unread bytes to the new connection"),
 ("C02-A", "C02", "C02.R7", "stale not-matched verdict survives a non-terminal route"),
 ("C02-B", "C02", "C02.R6", "subroute caches the compiled handler with the first connection's next"),
 ("C06-A", "C06", "C06.R6", "freeze hoisted around the whole set"),
 ("C06-B", "C06", "C06.R7", "http matcher memoises the request before the h2 preface/frames are read"),
 ("C07-B", "C06", "C06.R4", "tls matcher answers 'no' when fewer bytes than the record length are buffered"),
 ("C05-A", "C05", "C05.R2", "deadline armed once only; not re-armed after a matched non-terminal route"),
 ("C05-B", "C05", "C05.R5", "buffer limit measured from the cursor"),
 ("fixrev-396f23a", "C05", "C05.R2", "fallback of an empty route list runs with the deadline armed"),
 ("fixrev-2c4eaef", "C05", "C05.R6", "UDP deadline truncated to whole seconds"),
]
out = []
for d, prop, expect, why in T:
    p = os.path.join("seeded", d, "patch.diff")
    if not os.path.exists(os.path.join(here, p)):
        raise SystemExit("missing " + p)
    out.append({"name": d, "property": prop, "patch": p, "expect": expect, "why": why})
os.makedirs(os.path.join(here, "selftest"), exist_ok=True)
json.dump(out, open(os.path.join(here, "selftest", "seeded.json"), "w"), indent=1)
print(len(out), "variants")
