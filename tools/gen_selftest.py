#!/usr/bin/env python3
"""Regenerates /verif/selftest/seeded.json: which seeded change (under /verif/seeded) must make which rule fire."""
import json, os
here = os.path.dirname(os.path.dirname(os.path.abspath(__file__)))
# (seeded dir, property, substring expected in a failed obligation key, why)
T = [
 ("C01-A", "C01", "C01.R1", "unfreeze deferred once: second freeze overwrites the saved cursor"),
 ("C06-A", "C01", "C01.R1", "freeze hoisted around the whole set: second matcher starts where the first stopped"),
 ("fixrev-d03f68a", "C01", "C01.R5", "tee copies the Connection by value"),
 ("C03-B", "C01", "C01.R5", "Wrap hands the unread bytes to the new connection"),
 ("C02-A", "C02", "C02.R7", "stale not-matched verdict survives a non-terminal route"),
 ("C02-B", "C02", "C02.R6", "subroute caches the compiled handler with the first connection's next"),
 ("C06-A", "C06", "C06.R6", "freeze hoisted around the whole set"),
 ("C06-B", "C06", "C06.R7", "http matcher memoises the request before the h2 preface/frames are read"),
 ("C07-B", "C06", "C06.R4", "tls matcher answers 'no' when fewer bytes than the record length are buffered"),
 ("C01-B", "C08", "C08.R3", "listener.handle recycles the buffer of a hijacked connection"),
 ("C01-B", "C13", "C13.R3", "listener.handle recycles the buffer of a hijacked connection"),
 ("fixrev-eecd844", "C13", "C13.R3", "reversal of the listener buffer fix"),
 ("C08-A", "C08", "C08.R3", "prefetch adopts the pooled temporary chunk as the matching buffer"),
 ("C08-A", "C01", "C01.R4", "prefetch adopts the pooled temporary chunk as the matching buffer"),
 ("C08-B", "C08", "C08.R2", "package-level FNV hasher shared by all connections"),
 ("fixrev-3cbc344", "C08", "C08.R1", "round robin counter read plainly"),
 ("fixrev-1c16de7", "C08", "C08.R2", "lastDigest plain field written per connection"),
 ("fixrev-608c2b6", "C08", "C08.R5", "bytesWritten plain +="),
 ("C09-A", "C09", "C09.R5", "close notification dropped when the channel is full"),
 ("C09-B", "C09", "C09.R4", "second serve loop on a socket"),
 ("fixrev-b058322", "C09", "C09.R1", "readCh closed by the receiver side while the loop sends"),
 ("C13-A", "C13", "C13.R4", "loop waits for handlers before draining"),
 ("C13-B", "C13", "C13.R7", "isTerminal hoisted: terminal route after a non-terminal one treated as non-terminal"),
 ("C13-B", "C02", "C02.R7", "isTerminal hoisted"),
 ("C03-A", "C03", "C03.R3", "pump's completion channel made unbuffered"),
 ("C03-B", "C03", "C03.R6", "Wrap hands unread bytes on"),
 ("fixrev-40ad23d", "C03", "C03.R5", "dialed upstream leaked when the header write fails"),
 ("C10-A", "C10", "C10.R5", "round robin counter advanced once per selection"),
 ("C10-B", "C10", "C10.R4", "healthy() consults only the first peer's failure count"),
 ("fixrev-9c0f4f8", "C10", "C10.R1", "leastConns dereferences nil slots"),
 ("fixrev-3cbc344", "C10", "C10.R5", "round robin index read plainly"),
 ("C11-A", "C11", "C11.R1", "failure forgetter aborts on context cancellation"),
 ("C11-B", "C11", "C11.R6", "active check resets the failure counter"),
 ("C10-B", "C11", "C11.R5", "healthy() consults only the first peer"),
 ("fixrev-8212113", "C11", "C11.R2", "countConn never called"),
 ("C12-A", "C12", "C12.R7", "tidyRules drops the first rule"),
 ("C12-B", "C12", "C12.R4", "dialPeers switches on the raw option string"),
 ("C03-B", "C12", "C12.R2", "Wrap hands unread bytes on"),
 ("C17-A", "C17", "C17.R3", "total limiter dropped when the local one is stricter"),
 ("C17-B", "C17", "C17.R1", "underlying read not clamped to the batch"),
 ("C16-A", "C16", "C16.R2", "authenticator chosen from the filtered credential map"),
 ("C16-B", "C16", "C16.R1", "default commands chosen from the filtered command list"),
 ("C18-A", "C18", "C18.R1", "crypt2 parser locates the wrapped key from the tail and drops stray bytes"),
 ("fixrev-db39786", "C18", "C18.R1", "rdp fixed-size parsers accept over-long input"),
 ("fixrev-496153b", "C18", "C18.R1", "wireguard initiation parser accepts over-long input"),
 ("C07-A", "C07", "C07.R3", "session ticket extension no longer consumed"),
 ("C07-B", "C07", "C07.R6", "tls matcher answers 'no' when the hello is not fully buffered"),
 ("C14-A", "C14", "C14.R4", "remote_ip/local_ip take the address from AddrPort (IPv4-mapped form)"),
 ("C14-B", "C14", "C14.R5", "dns deny decision flattened: denied & not allowed accepted under prefer_allow"),
 ("C15-A", "C15", "C15.R6", "unhealthy_connection_count replaces HealthChecks and drops active options"),
 ("C15-B", "C15", "C15.R7", "server counter restarts at 0 for a second global block"),
 ("C04-A", "C04", "C04.R1", "http isHttp guard lowered from 10 to 9"),
 ("C04-B", "C04", "C04.R7", "postgres ReadString guard weakened"),
 ("fixrev-133cdeb", "C04", "C04.R2", "postgres length no longer validated (unbounded allocation, short messages)"),
 ("fixrev-4e898d7", "C04", "C04.R1", "rdp looks past the payload for LF"),
 ("fixrev-d57319b", "C04", "C04.R1", "winbox chunk/delimiter boundary checks removed"),
 ("fixrev-9c0f4f8", "C04", "C04.R6", "leastConns dereferences nil slots"),
 ("C05-A", "C05", "C05.R2", "deadline armed once only; not re-armed after a matched non-terminal route"),
 ("C05-B", "C05", "C05.R5", "buffer limit measured from the cursor"),
 ("fixrev-396f23a", "C05", "C05.R2", "fallback of an empty route list runs with the deadline armed"),
 ("fixrev-2c4eaef", "C05", "C05.R6", "UDP deadline truncated to whole seconds"),
 # ---- round 2 (sub-agents told to differ from round 1) ----
 ("C01-C", "C01", "C01.R8", "hand-off delivers a wrapper around the inner Conn after TLS termination"),
 ("C01-C", "C13", "C13.R6", "hand-off delivers a wrapper around the inner Conn"),
 ("C01-D", "C01", "C01.R5", "throttle wraps a conn built on cx.Conn, bypassing cx's buffer"),
 ("C01-D", "C17", "C17.R3", "throttle hands on Wrap(...) instead of installing the throttled conn"),
 ("C02-C", "C02", "C02.R1", "AnyMatch lets a later set's match override an earlier error"),
 ("C02-D", "C02", "C02.R7", "router slip found by round 2"),
 ("C03-C", "C03", "C03.R1", "tee chain rebuilt from the raw downstream: only the last peer gets the stream"),
 ("C03-D", "C03", "C03.R7", "Read drops the consumed prefix but keeps the cursor"),
 ("C03-D", "C01", "C01.R3", "Read drops the consumed prefix but keeps the cursor"),
 ("C04-C", "C04", "C04.R1", "rdp correlation-info bound uses the wrong start"),
 ("C04-D", "C04", "C04.R8", "http2 frame loop falls through to an unchecked type assertion"),
 ("C05-C", "C05", "C05.R2", "deadline not cleared before the fallback after a matched route"),
 ("C05-D", "C05", "C05.R7", "UDP SetReadDeadline drains the timer channel (can block for ever)"),
 ("C06-C", "C06", "C06.R8", "AnyMatch skips a set that needs more data"),
 ("C06-D", "C06", "C06.R9", "lastNeedsMoreIdx treated as a high-water mark: stale verdicts survive"),
 ("C07-C", "C07", "C07.R7", "renegotiation SCSV not appended to the cipher suites"),
 ("C07-D", "C07", "C07.R5", "bare tls matcher returns before parsing: placeholders unset"),
 ("C08-C", "C08", "C08.R7", "hijack guard evaluated at defer time (always nil)"),
 ("C08-C", "C13", "C13.R3", "hijack guard evaluated at defer time"),
 ("C08-D", "C08", "C08.R6", "pooled buffer not truncated before WrapConnection"),
 ("C09-C", "C09", "C09.R6", "datagram record hoisted out of the loop: queued pointers alias"),
 ("C09-D", "C09", "C09.R7", "'fully consumed' decided by n < len(b)"),
 ("C10-C", "C10", "C10.R2", "least_conn: unavailable upstreams lower the minimum"),
 ("C10-D", "C10", "C10.R4", "full() compares the sum over peers with the per-peer limit"),
 ("C11-C", "C11", "C11.R8", "passive policy attached only if max_fails already > 0 (default applied later)"),
 ("C11-D", "C11", "C11.R7", "tryAgain gives up one interval early"),
 ("C12-C", "C12", "C12.R3", "header buffer drained by the first peer"),
 ("C12-D", "C12", "C12.R1", "LOCAL/UNSPEC header: next gets the original connection"),
 ("C12-D", "C01", "C01.R7", "LOCAL/UNSPEC header: next gets the original connection"),
 ("C13-C", "C13", "C13.R3", "buffer recycled when the outer buffer is empty although the wrapped one shares it"),
 ("C13-D", "C13", "C13.R8", "hand-off runs with the matching deadline armed"),
 ("C14-C", "C14", "C14.R7", "clock: zone offset cached at provisioning"),
 ("C14-D", "C14", "C14.R6", "rdp: HYBRID/HYBRID_EX dependency swapped"),
 ("C15-C", "C15", "C15.R9", "'!private_ranges' compared before the '!' is stripped"),
 ("C15-D", "C15", "C15.R8", "tls_except_ports appends to Curves"),
 ("C16-C", "C16", "C16.R5", "account names filtered before placeholder resolution"),
 ("C16-D", "C16", "C16.R1", "default command rule shared by pointer between handlers"),
 ("C17-C", "C17", "C17.R1", "token shortcut through Tokens()/AllowN (check-then-act)"),
 ("C17-D", "C17", "C17.R3", "latency skipped when no limiter is configured"),
 ("C18-C", "C18", "C18.R1", "RDPToken.ToBytes recomputes Length"),
 ("C18-D", "C18", "C18.R1", "openvpn MessageAuth reads the packet id one byte early"),
]
NEUTRAL = ["neutral%d-N%d" % (a, b) for a in (1, 2, 3, 4, 5) for b in range(1, 9)]
PROPS = ["C%02d" % i for i in range(1, 19)]
out = []
for d, prop, expect, why in T:
    p = os.path.join("seeded", d, "patch.diff")
    if not os.path.exists(os.path.join(here, p)):
        raise SystemExit("missing " + p)
    out.append({"name": d, "property": prop, "patch": p, "expect": expect, "why": why})
# behaviour-preserving refactorings: no rule of any property may fire on them
for d in NEUTRAL:
    p = os.path.join("seeded", d, "patch.diff")
    if not os.path.exists(os.path.join(here, p)):
        raise SystemExit("missing " + p)
    for prop in PROPS:
        out.append({"name": d, "property": prop, "patch": p, "neutral": True, "why": "behaviour-preserving refactoring by an independent sub-agent"})
os.makedirs(os.path.join(here, "selftest"), exist_ok=True)
json.dump(out, open(os.path.join(here, "selftest", "seeded.json"), "w"), indent=1)
print(len(out), "variants")
